#!/usr/bin/env python3
"""Prints a markdown table of /verif/seeded/*/meta.json (used for DESIGN.md §8.4)."""
import json, glob, os, re
rows = []
for m in sorted(glob.glob('/verif/seeded/*/meta.json')):
    d = json.load(open(m))
    diff = open(os.path.dirname(m) + '/patch.diff').read()
    files = sorted(set(re.findall(r'^\+\+\+ b/(\S+)', diff, re.M)))
    short = ', '.join(os.path.basename(f) for f in files)
    rules = []
    for r in d['evaluation']['results']:
        for x in r['rules']:
            nm = (r['check'] + ':' if r['check'] != d['property'] else '') + x['rule']
            if nm not in rules:
                rules.append(nm)
    res = 'yes: ' + ', '.join(rules[:3]) if d['detected'] else 'no'
    if d.get('notes'):
        res += ' — ' + d['notes']
    rows.append(f"| {d['id']} | {short} | {res} |")
print('| seeded change | touches | reported by the quick check of its property (55 s) |')
print('|---|---|---|')
print('\n'.join(rows))
