#!/bin/bash
# tools/selftest-determinism.sh [runs-per-process] [seed]
# Determinism proof (DESIGN.md §8.3): for every claimed property the same runs are executed in
# 6 separate processes (GOMAXPROCS 1, 4, 16; two processes each) and the per-run lines
# (steps, requests, faults, event-log hash, interleaving signature, state count) are compared.
# Exit 0 = all identical. Not a MANIFEST command.
set -u
cd /verif || exit 2
./build.sh all || exit 2
N=${1:-40}; SEED=${2:-7}
OUT=$(mktemp -d /var/tmp/verif-determinism.XXXX)
PROPS=$(python3 -c "import json;print(' '.join(c['property_id'] for c in json.load(open('MANIFEST.json'))['checks']))")
jobs=()
for p in $PROPS; do for g in 1 4 16; do for r in a b; do
  echo "$p $g $r"
done; done; done | xargs -P 12 -L 1 bash -c 'VERIF_PROP=$0 VERIF_RUNS='$N' VERIF_SEED='$SEED' GOMAXPROCS=$1 /verif/.build/sim.test -test.run "^TestSmoke$" -test.timeout 2h 2>&1 | grep "^run " > '$OUT'/$0.$1.$2'
bad=0
for p in $PROPS; do
  ref=$OUT/$p.1.a
  n=$(wc -l < $ref)
  [ "$n" -eq "$N" ] || { echo "$p: only $n of $N runs printed"; bad=1; }
  for f in $OUT/$p.*; do
    if ! cmp -s $ref $f; then echo "DIVERGENCE $p: $(basename $f) differs from $(basename $ref)"; diff $ref $f | head -4; bad=1; fi
  done
done
[ $bad -eq 0 ] && echo "determinism: $(echo $PROPS | wc -w) properties x $N runs x 6 processes (GOMAXPROCS 1,4,16) identical (seed $SEED)"
rm -rf $OUT
exit $bad
