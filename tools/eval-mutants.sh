#!/bin/bash
# tools/eval-mutants.sh <dir-with-mut-ID-worktrees> <results-dir> [wall_s]
# Evaluates every <dir>/mut-<ID>/MUTANT<N>.diff not evaluated yet: applies it to a scratch worktree of /repo,
# runs the quick check of <ID> from a private copy of /verif (so the main tree's build is not disturbed).
set -u
SRC=${1:-/tmp}; RES=${2:-/tmp/mutresults}; WALL=${3:-55}
mkdir -p "$RES"
EV=/tmp/verif-eval; WT=/tmp/verif-eval-wt
rsync -a --delete --exclude .git --exclude .build --exclude evidence --exclude replays /verif/ $EV/
[ -d $WT ] || git -C /repo worktree add --detach $WT HEAD >/dev/null 2>&1
for d in $SRC/${MUT_PREFIX:-mut}-C*; do
  id=$(basename $d | sed "s/.*-//")
  for diff in $d/MUTANT*.diff; do
    [ -f "$diff" ] || continue
    n=$(basename $diff .diff)
    out=$RES/$id-$n.txt
    [ -f "$out" ] && continue
    git -C $WT checkout -q --detach "$(git -C /repo rev-parse HEAD)"; git -C $WT checkout -q -- .; git -C $WT clean -fdq
    if ! git -C $WT apply "$diff" 2>$out.err; then echo "APPLY-FAILED" > $out; continue; fi
    props=${EVAL_PROPS:-$id}
    : > $out
    for p in $props; do
      VERIF_DIR=$EV VERIF_REPO=$WT VERIF_WALL_S=$WALL $EV/check $p quick > $out.$p.log 2>&1; st=$?
      echo "$p exit=$st $(grep -m1 '^VIOLATION' $out.$p.log | cut -c1-200)" >> $out
      grep "^  rule=" $out.$p.log | cut -c1-400 >> $out
      grep -m2 "^MACHINERY" $out.$p.log | cut -c1-300 >> $out
    done
    git -C $WT checkout -q -- .
  done
done
echo EVAL-DONE
