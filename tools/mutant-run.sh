#!/bin/bash
# tools/mutant-run.sh <patch.diff> <PROP> [wall_s]  — applies a seeded change to a scratch worktree of /repo,
# runs the quick check of PROP against it and removes the change again. For sensitivity experiments only.
set -u
patch=$(readlink -f "$1"); prop=$2; wall=${3:-25}
WT=/tmp/verif-mutant-wt
if [ ! -d "$WT" ]; then git -C /repo worktree add --detach "$WT" HEAD >/dev/null 2>&1 || exit 2; fi
git -C "$WT" checkout -q --detach "$(git -C /repo rev-parse HEAD)" && git -C "$WT" checkout -q -- . || exit 2
git -C "$WT" apply "$patch" || { echo "patch does not apply"; exit 2; }
export VERIF_REPO=$WT VERIF_WALL_S=$wall VERIF_EVIDENCE_DIR=/tmp/verif-mutant-evidence VERIF_REPLAY_DIR=/tmp/verif-mutant-replays
mkdir -p $VERIF_EVIDENCE_DIR $VERIF_REPLAY_DIR
/verif/check "$prop" quick > /tmp/verif-mutant.out 2>&1; st=$?
grep -m3 "^VIOLATION\|^MACHINERY\|KNOWN-FINDING" /tmp/verif-mutant.out
tail -1 /tmp/verif-mutant.out | cut -c1-200
echo "exit=$st"
git -C "$WT" checkout -q -- .
unset VERIF_REPO
/verif/build.sh all >/dev/null 2>&1
exit $st
