#!/usr/bin/env python3
"""tools/collect-seeded.py <src-dir-prefix> <results-dir> <wave>
Stores evaluated seeded changes under /verif/seeded/<PROP>-w<wave>-<n>/ (patch.diff, demonstration.md, meta.json)."""
import sys, os, re, json, glob, shutil
src, res, wave = sys.argv[1], sys.argv[2], sys.argv[3]
notes = json.load(open(sys.argv[4])) if len(sys.argv) > 4 else {}
for d in sorted(glob.glob(src + '-C*')):
    prop = os.path.basename(d).split('-')[-1]
    for diff in sorted(glob.glob(d + '/MUTANT*.diff')):
        n = re.search(r'MUTANT(\d+)', diff).group(1)
        rid = f'{prop}-w{wave}-{n}'
        out = f'/verif/seeded/{rid}'
        os.makedirs(out, exist_ok=True)
        shutil.copy(diff, out + '/patch.diff')
        md = diff.replace('.diff', '.md')
        if os.path.exists(md):
            shutil.copy(md, out + '/demonstration.md')
        rf = f'{res}/{prop}-MUTANT{n}.txt'
        results = []
        if os.path.exists(rf):
            for line in open(rf):
                m = re.match(r'(C\d+) exit=(\d+)', line)
                if m:
                    results.append({'check': m.group(1), 'exit': int(m.group(2)), 'rules': []})
                m = re.match(r'\s+rule=(\S+) sig=(\S*) runs=(\d+)', line)
                if m and results:
                    results[-1]['rules'].append({'rule': m.group(1), 'signature': m.group(2), 'runs': int(m.group(3))})
        meta = {'id': rid, 'property': prop, 'origin': f'fresh sub-agent given only the property text and a scratch worktree (wave {wave})',
                'base_commit': os.popen('git -C /repo rev-parse --short HEAD').read().strip(),
                'evaluation': {'command': f'VERIF_REPO=<scratch worktree with patch> VERIF_WALL_S=55 ./check {prop} quick', 'results': results},
                'detected': any(r['exit'] == 1 for r in results)}
        if rid in notes:
            meta['notes'] = notes[rid]
        json.dump(meta, open(out + '/meta.json', 'w'), indent=1)
        print(rid, 'detected' if meta['detected'] else 'NOT detected', [x['rule'] for r in results for x in r['rules']][:3])
