//go:build verif

// Package simsync provides drop-in replacements for sync.Mutex / sync.RWMutex
// and the go statement whose every acquisition, release and goroutine start is
// a scheduling point owned by the E2 simulator (DESIGN.md §4). Component
// source files are rewritten to use it at build time; nothing in /repo changes.
package simsync

import (
	"fmt"
	"runtime"
	"sort"
	"strconv"
	"strings"
	"sync"
)

// Task is one controlled goroutine.
type Task struct {
	ID      int
	Name    string
	resume  chan struct{}
	State   int // Running, Parked, BlockedOnLock, Done
	At      string
	waitFor any // lock the task waits for
	held    []heldLock
	// Local is scratch space for the harness (current operation of a caller task).
	Local any
}

type heldLock struct {
	l         any
	exclusive bool
}

func (t *Task) hold(l any, excl bool) { t.held = append(t.held, heldLock{l, excl}) }
func (t *Task) release(l any, excl bool) {
	for i := len(t.held) - 1; i >= 0; i-- {
		if t.held[i].l == l && t.held[i].exclusive == excl {
			t.held = append(t.held[:i], t.held[i+1:]...)
			return
		}
	}
}

const (
	Running = iota
	Parked
	Blocked
	Done
)

// Sched is the scheduler state of one simulated run.
type Sched struct {
	mu    sync.Mutex // protects the maps only (never held across a park)
	byGID map[int64]*Task
	Tasks []*Task
	next  int
	// Unguarded lists accesses to instrumented shared fields made without a suitable lock (lockset check).
	Unguarded []string
	// Permute returns a permutation of 0..n-1 (drawn by the harness from the schedule stream).
	Permute func(n int) []int
	// Yields counts scheduling points per kind.
	Yields map[string]int
}

// MapKeys returns the keys of m in an order the simulator decides: sorted by
// their printed form, then permuted by the Permute hook (a recorded choice).
// Rewritten range statements over component maps walk this slice.
func MapKeys[K comparable, V any](m map[K]V) []K {
	keys := make([]K, 0, len(m))
	for k := range m {
		keys = append(keys, k)
	}
	sort.Slice(keys, func(i, j int) bool { return fmt.Sprint(keys[i]) < fmt.Sprint(keys[j]) })
	if s := cur; s != nil && s.Permute != nil && len(keys) > 1 && s.me() != nil {
		perm := s.Permute(len(keys))
		out := make([]K, len(keys))
		for i, p := range perm {
			out[i] = keys[p]
		}
		return out
	}
	return keys
}

// CurrentTask returns the controlled task of the calling goroutine (nil outside a simulation).
func CurrentTask() *Task {
	if cur == nil {
		return nil
	}
	return cur.me()
}

// Access is inserted by the rewriter before statements touching a guarded field.
func Access(field string, write bool, site string) {
	s := cur
	if s == nil {
		return
	}
	t := s.me()
	if t == nil {
		return
	}
	ok := false
	for _, h := range t.held {
		if h.exclusive || !write {
			ok = true
		}
	}
	if !ok {
		mode := "read"
		if write {
			mode = "write"
		}
		s.mu.Lock()
		s.Unguarded = append(s.Unguarded, fmt.Sprintf("%s %s at %s", mode, field, site))
		s.mu.Unlock()
	}
}

var cur *Sched

// Stop uninstalls the scheduler (real primitives are used again).
func Stop() { cur = nil }

// Reset installs a fresh scheduler (one per run).
func Reset() *Sched {
	cur = &Sched{byGID: map[int64]*Task{}, Yields: map[string]int{}}
	return cur
}

func gid() int64 {
	var buf [64]byte
	n := runtime.Stack(buf[:], false)
	f := strings.Fields(string(buf[:n]))
	if len(f) < 2 {
		return -1
	}
	id, _ := strconv.ParseInt(f[1], 10, 64)
	return id
}

func (s *Sched) me() *Task {
	s.mu.Lock()
	defer s.mu.Unlock()
	return s.byGID[gid()]
}

// Go starts fn as a controlled task; it parks before running its first statement.
func Go(name string, fn func()) {
	s := cur
	if s == nil {
		go fn()
		return
	}
	s.mu.Lock()
	s.next++
	t := &Task{ID: s.next, Name: name, resume: make(chan struct{}), State: Parked, At: "start"}
	s.Tasks = append(s.Tasks, t)
	s.mu.Unlock()
	go func() {
		s.mu.Lock()
		s.byGID[gid()] = t
		s.mu.Unlock()
		<-t.resume
		t.State = Running
		fn()
		t.State = Done
		t.At = "done"
	}()
}

// GoStmt is what a rewritten `go f(x)` statement calls.
func GoStmt(fn func()) { Go("spawned", fn) }

// Yield parks the calling task at a named point (no-op outside a simulation).
func Yield(at string) {
	s := cur
	if s == nil {
		return
	}
	t := s.me()
	if t == nil {
		return
	}
	t.At = at
	s.mu.Lock()
	s.Yields[at]++
	s.mu.Unlock()
	t.State = Parked
	<-t.resume
	t.State = Running
}

// Runnable lists parked tasks that can make progress, in creation order.
func (s *Sched) Runnable() []*Task {
	s.mu.Lock()
	defer s.mu.Unlock()
	var out []*Task
	for _, t := range s.Tasks {
		if t.State == Parked {
			out = append(out, t)
		}
		if t.State == Blocked {
			if l, ok := t.waitFor.(interface{ free(t *Task) bool }); ok && l.free(t) {
				out = append(out, t)
			}
		}
	}
	return out
}

// Resume lets t run until it parks again, blocks or finishes (the caller then waits for quiescence).
func (s *Sched) Resume(t *Task) { t.resume <- struct{}{} }

// AllDone reports whether every task finished.
func (s *Sched) AllDone() bool {
	s.mu.Lock()
	defer s.mu.Unlock()
	for _, t := range s.Tasks {
		if t.State != Done {
			return false
		}
	}
	return true
}

func (s *Sched) Describe() string {
	s.mu.Lock()
	defer s.mu.Unlock()
	var b strings.Builder
	for _, t := range s.Tasks {
		fmt.Fprintf(&b, "%d:%s@%s/%d ", t.ID, t.Name, t.At, t.State)
	}
	return b.String()
}

// ---- Mutex ---------------------------------------------------------------------

// Mutex has the method set of sync.Mutex.
type Mutex struct {
	real   sync.Mutex // used outside a simulation
	locked bool
}

func (m *Mutex) free(*Task) bool { return !m.locked }

func (m *Mutex) Lock() {
	s := cur
	var t *Task
	if s != nil {
		t = s.me()
	}
	if t == nil {
		m.real.Lock()
		return
	}
	Yield("lock")
	for m.locked {
		t.waitFor = m
		t.At = "blocked-on-lock"
		t.State = Blocked
		<-t.resume
		t.State = Running
	}
	m.locked = true
	t.hold(m, true)
}

func (m *Mutex) Unlock() {
	s := cur
	var t *Task
	if s != nil {
		t = s.me()
	}
	if t == nil {
		m.real.Unlock()
		return
	}
	if !m.locked {
		panic("simsync: unlock of unlocked mutex")
	}
	m.locked = false
	t.release(m, true)
	Yield("unlock")
}

func (m *Mutex) TryLock() bool {
	if m.locked {
		return false
	}
	m.locked = true
	return true
}

// ---- RWMutex -------------------------------------------------------------------

// RWMutex has the method set of sync.RWMutex.
type RWMutex struct {
	real    sync.RWMutex
	writer  bool
	readers int
}

type rwWant struct {
	m     *RWMutex
	write bool
}

func (w rwWant) free(*Task) bool {
	if w.write {
		return !w.m.writer && w.m.readers == 0
	}
	return !w.m.writer
}

func (m *RWMutex) task() *Task {
	if cur == nil {
		return nil
	}
	return cur.me()
}

func (m *RWMutex) Lock() {
	t := m.task()
	if t == nil {
		m.real.Lock()
		return
	}
	Yield("lock")
	for m.writer || m.readers > 0 {
		t.waitFor = rwWant{m, true}
		t.At = "blocked-on-lock"
		t.State = Blocked
		<-t.resume
		t.State = Running
	}
	m.writer = true
	t.hold(m, true)
}

func (m *RWMutex) Unlock() {
	t := m.task()
	if t == nil {
		m.real.Unlock()
		return
	}
	m.writer = false
	t.release(m, true)
	Yield("unlock")
}

func (m *RWMutex) RLock() {
	t := m.task()
	if t == nil {
		m.real.RLock()
		return
	}
	Yield("rlock")
	for m.writer {
		t.waitFor = rwWant{m, false}
		t.At = "blocked-on-rlock"
		t.State = Blocked
		<-t.resume
		t.State = Running
	}
	m.readers++
	t.hold(m, false)
}

func (m *RWMutex) RUnlock() {
	t := m.task()
	if t == nil {
		m.real.RUnlock()
		return
	}
	m.readers--
	t.release(m, false)
	Yield("runlock")
}
