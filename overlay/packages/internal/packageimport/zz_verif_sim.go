//go:build verif

package packageimport

import (
	"context"

	"github.com/google/go-containerregistry/pkg/crane"
	"k8s.io/apimachinery/pkg/types"
	"sigs.k8s.io/controller-runtime/pkg/client"

	"package-operator.run/internal/packages/internal/packagetypes"
)

// SimSetPull replaces the registry pull function (the seam the simulator scripts).
func (r *RequestManager) SimSetPull(fn func(ctx context.Context, image string) (*packagetypes.RawPackage, error)) {
	r.pullImage = func(
		ctx context.Context, _ client.Client, _ types.NamespacedName, ref string, _ ...crane.Option,
	) (*packagetypes.RawPackage, error) {
		return fn(ctx, ref)
	}
}

// SimInFlight reports how many receivers wait per image (white-box observation).
func (r *RequestManager) SimInFlight() map[string]int {
	r.inFlightLock.Lock()
	defer r.inFlightLock.Unlock()
	out := map[string]int{}
	for k, v := range r.inFlight {
		out[k] = len(v)
	}
	return out
}

// SimInFlightUnlocked is SimInFlight for callers that know no task runs (E2 scheduler).
func (r *RequestManager) SimInFlightUnlocked() map[string]int {
	out := map[string]int{}
	for k, v := range r.inFlight {
		out[k] = len(v)
	}
	return out
}
