//go:build verif

package dynamiccache

import (
	"context"

	"k8s.io/apimachinery/pkg/runtime"
	"k8s.io/apimachinery/pkg/runtime/schema"
	"k8s.io/client-go/tools/cache"
	"sigs.k8s.io/controller-runtime/pkg/client"
)

// SimInformerMap is the seam the simulator implements instead of InformerMap.
type SimInformerMap interface {
	Get(ctx context.Context, gvk schema.GroupVersionKind, obj runtime.Object) (cache.SharedIndexInformer, client.Reader, error)
	Delete(ctx context.Context, gvk schema.GroupVersionKind) error
}

// NewCacheForSim builds the real Cache around a scripted informer map.
func NewCacheForSim(scheme *runtime.Scheme, im SimInformerMap) *Cache {
	return &Cache{
		scheme:             scheme,
		informerReferences: map[schema.GroupVersionKind]map[OwnerReference]struct{}{},
		cacheSource:        &cacheSource{},
		informerMap:        im,
	}
}

// SimReferences returns a copy of the reference table (white-box observation).
func (c *Cache) SimReferences() map[schema.GroupVersionKind][]OwnerReference {
	c.informerReferencesMux.RLock()
	defer c.informerReferencesMux.RUnlock()
	out := map[schema.GroupVersionKind][]OwnerReference{}
	for gvk, refs := range c.informerReferences {
		for r := range refs {
			out[gvk] = append(out[gvk], r)
		}
	}
	return out
}

// SimReferencesUnlocked is SimReferences for callers that know no task runs (E2 scheduler).
func (c *Cache) SimReferencesUnlocked() map[schema.GroupVersionKind][]OwnerReference {
	out := map[schema.GroupVersionKind][]OwnerReference{}
	for gvk, refs := range c.informerReferences {
		out[gvk] = []OwnerReference{}
		for r := range refs {
			out[gvk] = append(out[gvk], r)
		}
	}
	return out
}

// SimRecorder is the metrics seam (production passes a Prometheus recorder).
type SimRecorder interface {
	RecordDynamicCacheInformers(total int)
	RecordDynamicCacheObjects(gvk schema.GroupVersionKind, count int)
}

// NewCacheForSimWithRecorder is NewCacheForSim with a metrics recorder, so that the
// sampling done at the end of Watch and Free runs as in production.
func NewCacheForSimWithRecorder(scheme *runtime.Scheme, im SimInformerMap, rec SimRecorder) *Cache {
	c := NewCacheForSim(scheme, im)
	c.recorder = rec
	return c
}
