#!/bin/bash
# Builds the simulator test binaries from the current working tree of $VERIF_REPO (default /repo).
# Usage: build.sh [e1|e2|all]   Exit 2 on build trouble.
set -u
VERIF=${VERIF_DIR:-$(cd "$(dirname "$0")" && pwd)}
REPO=${VERIF_REPO:-/repo}
export GOFLAGS=-mod=mod GOPROXY=off GOSUMDB=off GOTOOLCHAIN=local GOWORK=off
export PATH=$PATH:/opt/veriftools/go1.26.8/bin
GO=go1.26.8
command -v $GO >/dev/null 2>&1 || GO=/opt/veriftools/go1.26.8/bin/go
what=${1:-all}
mkdir -p "$VERIF/.build"
exec 9>"$VERIF/.build/lock"
flock 9
sed "s#@REPO@#$REPO#g" "$VERIF/sim/go.mod.tmpl" > "$VERIF/sim/go.mod" || exit 2
cp "$REPO/go.sum" "$VERIF/sim/go.sum" || exit 2
cat "$VERIF/sim/go.sum.extra" >> "$VERIF/sim/go.sum" 2>/dev/null
# E2: rewrite the lock-using component files of the current tree (sync.Mutex -> simsync, go -> simsync.GoStmt, lockset probes)
REWRITTEN="internal/dynamiccache/cache.go internal/dynamiccache/cache_source.go internal/packages/internal/packageimport/request_manager.go"
cd "$VERIF/sim" || exit 2
$GO build -o "$VERIF/.build/rewrite" ./cmd/rewrite > "$VERIF/.build/build-rewrite.log" 2>&1 || { cat "$VERIF/.build/build-rewrite.log"; echo "MACHINERY: build of the rewriter failed"; exit 2; }
rm -rf "$VERIF/.build/rewritten"
for f in $REWRITTEN; do
  mkdir -p "$VERIF/.build/rewritten/$(dirname $f)"
  "$VERIF/.build/rewrite" "$REPO/$f" "$VERIF/.build/rewritten/$f" || { echo "MACHINERY: rewriting $f failed"; exit 2; }
  grep -q simsync "$VERIF/.build/rewritten/$f" || { echo "MACHINERY: $f has no lock or go statement left to rewrite"; exit 2; }
done
python3 - "$VERIF" "$REPO" <<'PY' || exit 2
import json,os,glob,sys
verif,repo=sys.argv[1],sys.argv[2]
ov={"Replace":{}}
for f in glob.glob(verif+'/overlay/**/*.go',recursive=True):
    rel=os.path.relpath(f,verif+'/overlay')
    ov["Replace"][repo+'/internal/'+rel]=f
for f in glob.glob(verif+'/.build/rewritten/**/*.go',recursive=True):
    rel=os.path.relpath(f,verif+'/.build/rewritten')
    ov["Replace"][repo+'/'+rel]=f
json.dump(ov,open(verif+'/.build/overlay.json','w'),indent=1)
PY
cd "$VERIF/sim" || exit 2
if [ "$what" = e1 ] || [ "$what" = all ]; then
  $GO test -c -vet=off -tags verif -overlay "$VERIF/.build/overlay.json" -o "$VERIF/.build/sim.test" ./run > "$VERIF/.build/build-e1.log" 2>&1 || { cat "$VERIF/.build/build-e1.log"; echo "MACHINERY: build of E1 failed"; exit 2; }
fi
exit 0
