#!/bin/bash
# Builds the simulator binaries offline from files on disk. Nothing under /tmp is needed later.
set -u
cd "$(dirname "$0")" || exit 2
./build.sh all || exit 2
echo "setup ok"
