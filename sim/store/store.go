// Package store is the simulated API server: storage, optimistic concurrency,
// sub-resources, patch types, server-side apply, finalizers/deletion,
// admission hooks. Semantics are listed in DESIGN.md §3.2.
package store

import (
	"encoding/json"
	"fmt"
	"reflect"
	"sort"
	"strconv"
	"strings"
	"time"

	apierrors "k8s.io/apimachinery/pkg/api/errors"
	"k8s.io/apimachinery/pkg/api/meta"
	metav1 "k8s.io/apimachinery/pkg/apis/meta/v1"
	"k8s.io/apimachinery/pkg/labels"
	"k8s.io/apimachinery/pkg/runtime"
	"k8s.io/apimachinery/pkg/runtime/schema"
	"k8s.io/apimachinery/pkg/types"
	utiljson "k8s.io/apimachinery/pkg/util/json"
	"k8s.io/apimachinery/pkg/util/validation/field"
)

type Obj = map[string]any

// Key identifies an object inside one cluster (version is not part of identity).
type Key struct {
	Group, Kind, Namespace, Name string
}

func (k Key) String() string {
	g := k.Group
	if g == "" {
		g = "core"
	}
	return g + "/" + k.Kind + "/" + k.Namespace + "/" + k.Name
}

func (k Key) GK() schema.GroupKind { return schema.GroupKind{Group: k.Group, Kind: k.Kind} }

// KindInfo describes a registered API.
type KindInfo struct {
	GVK        schema.GroupVersionKind
	Namespaced bool
	Status     bool // has a status sub-resource
}

// Event is one committed change.
type Event struct {
	Seq    uint64
	Type   string // ADDED, MODIFIED, DELETED
	Key    Key
	Before Obj
	After  Obj
}

// Counters are shared by all clusters of a world.
type Counters struct {
	Seq uint64 // global event/request sequence
	RV  uint64
	UID uint64
}

func (c *Counters) NextSeq() uint64 { c.Seq++; return c.Seq }

// Cluster is one simulated API server.
type Cluster struct {
	Name    string
	C       *Counters
	Kinds   map[schema.GroupKind]*KindInfo
	Objs    map[Key]Obj
	Log     []Event
	applied map[Key]map[string]Obj
	Now     func() time.Time
	// Admit is called with the old (nil on create) and new object before a
	// change is committed; a non-nil error rejects it (422).
	Admit func(k *KindInfo, old, new Obj) *field.Error
	// Default applies CRD defaults on create/update.
	Default func(k *KindInfo, o Obj)
}

func NewCluster(name string, c *Counters, now func() time.Time) *Cluster {
	return &Cluster{
		Name: name, C: c, Now: now,
		Kinds:   map[schema.GroupKind]*KindInfo{},
		Objs:    map[Key]Obj{},
		applied: map[Key]map[string]Obj{},
	}
}

func (c *Cluster) Register(gvk schema.GroupVersionKind, namespaced, status bool) {
	c.Kinds[gvk.GroupKind()] = &KindInfo{GVK: gvk, Namespaced: namespaced, Status: status}
}

// SortedKinds returns registered kinds in canonical order.
func (c *Cluster) SortedKinds() []*KindInfo {
	out := make([]*KindInfo, 0, len(c.Kinds))
	for _, k := range c.Kinds {
		out = append(out, k)
	}
	sort.Slice(out, func(i, j int) bool { return out[i].GVK.String() < out[j].GVK.String() })
	return out
}

func (c *Cluster) Kind(gk schema.GroupKind) (*KindInfo, error) {
	k, ok := c.Kinds[gk]
	if !ok {
		return nil, &meta.NoKindMatchError{GroupKind: gk}
	}
	return k, nil
}

// ---- helpers ---------------------------------------------------------------

func Copy(o Obj) Obj {
	if o == nil {
		return nil
	}
	return runtime.DeepCopyJSON(o)
}

// Normalize round-trips through JSON so that all numbers are int64/float64 as
// the unstructured helpers expect.
func Normalize(v any) Obj {
	b, err := json.Marshal(v)
	if err != nil {
		panic(fmt.Sprintf("store.Normalize marshal: %v", err))
	}
	var out Obj
	if err := utiljson.Unmarshal(b, &out); err != nil {
		panic(fmt.Sprintf("store.Normalize unmarshal: %v", err))
	}
	return out
}

func Meta(o Obj) Obj {
	m, _ := o["metadata"].(map[string]any)
	if m == nil {
		m = Obj{}
		o["metadata"] = m
	}
	return m
}

func metaRO(o Obj) Obj {
	m, _ := o["metadata"].(map[string]any)
	return m
}

func Str(o Obj, path ...string) string {
	var cur any = o
	for _, p := range path {
		m, ok := cur.(map[string]any)
		if !ok {
			return ""
		}
		cur = m[p]
	}
	s, _ := cur.(string)
	return s
}

func Int(o Obj, path ...string) int64 {
	var cur any = o
	for _, p := range path {
		m, ok := cur.(map[string]any)
		if !ok {
			return 0
		}
		cur = m[p]
	}
	switch v := cur.(type) {
	case int64:
		return v
	case float64:
		return int64(v)
	case int:
		return int64(v)
	}
	return 0
}

func Get(o Obj, path ...string) any {
	var cur any = o
	for _, p := range path {
		m, ok := cur.(map[string]any)
		if !ok {
			return nil
		}
		cur = m[p]
	}
	return cur
}

func GVKOf(o Obj) schema.GroupVersionKind {
	return schema.FromAPIVersionAndKind(Str(o, "apiVersion"), Str(o, "kind"))
}

func KeyOf(o Obj) Key {
	gvk := GVKOf(o)
	return Key{Group: gvk.Group, Kind: gvk.Kind, Namespace: Str(o, "metadata", "namespace"), Name: Str(o, "metadata", "name")}
}

func Finalizers(o Obj) []string {
	l, _ := Get(o, "metadata", "finalizers").([]any)
	out := make([]string, 0, len(l))
	for _, x := range l {
		if s, ok := x.(string); ok {
			out = append(out, s)
		}
	}
	return out
}

func HasFinalizer(o Obj, f string) bool {
	for _, x := range Finalizers(o) {
		if x == f {
			return true
		}
	}
	return false
}

func Labels(o Obj) map[string]string {
	m, _ := Get(o, "metadata", "labels").(map[string]any)
	out := map[string]string{}
	for k, v := range m {
		if s, ok := v.(string); ok {
			out[k] = s
		}
	}
	return out
}

func Annotations(o Obj) map[string]string {
	m, _ := Get(o, "metadata", "annotations").(map[string]any)
	out := map[string]string{}
	for k, v := range m {
		if s, ok := v.(string); ok {
			out[k] = s
		}
	}
	return out
}

func Deleting(o Obj) bool { return Get(o, "metadata", "deletionTimestamp") != nil }

func gr(k *KindInfo) schema.GroupResource {
	return schema.GroupResource{Group: k.GVK.Group, Resource: strings.ToLower(k.GVK.Kind) + "s"}
}

// clean drops empty containers that typed marshalling produces so that
// semantically equal objects compare equal.
func clean(o Obj) {
	m := metaRO(o)
	if m != nil {
		if v, ok := m["creationTimestamp"]; ok && v == nil {
			delete(m, "creationTimestamp")
		}
		for _, f := range []string{"labels", "annotations"} {
			if mm, ok := m[f].(map[string]any); ok && len(mm) == 0 {
				delete(m, f)
			}
			if v, ok := m[f]; ok && v == nil {
				delete(m, f)
			}
		}
		for _, f := range []string{"finalizers", "ownerReferences", "managedFields"} {
			if l, ok := m[f].([]any); ok && len(l) == 0 {
				delete(m, f)
			}
			if v, ok := m[f]; ok && v == nil {
				delete(m, f)
			}
		}
	}
	if s, ok := o["status"].(map[string]any); ok && len(s) == 0 {
		delete(o, "status")
	}
}

func specEqual(a, b Obj) bool {
	for _, pair := range [][2]Obj{{a, b}, {b, a}} {
		for k, v := range pair[0] {
			if k == "metadata" || k == "status" {
				continue
			}
			if !reflect.DeepEqual(v, pair[1][k]) {
				return false
			}
		}
	}
	return true
}

// ---- commit ----------------------------------------------------------------

func (c *Cluster) nextRV() string {
	c.C.RV++
	return strconv.FormatUint(c.C.RV, 10)
}

func (c *Cluster) commit(typ string, key Key, before, after Obj) {
	ev := Event{Seq: c.C.NextSeq(), Type: typ, Key: key, Before: before, After: Copy(after)}
	c.Log = append(c.Log, ev)
	if typ == "DELETED" {
		delete(c.Objs, key)
		delete(c.applied, key)
	} else {
		c.Objs[key] = after
	}
}

func (c *Cluster) invalid(k *KindInfo, name string, fe *field.Error) error {
	return apierrors.NewInvalid(k.GVK.GroupKind(), name, field.ErrorList{fe})
}

// finishUpdate compares, bumps generation/RV, handles "last finalizer removed",
// commits and returns the stored object.
func (c *Cluster) finishUpdate(k *KindInfo, key Key, cur, next Obj, dry bool) (Obj, error) {
	clean(next)
	m := Meta(next)
	cm := metaRO(cur)
	// immutable server fields
	for _, f := range []string{"uid", "creationTimestamp", "deletionTimestamp", "deletionGracePeriodSeconds", "name", "namespace"} {
		if v, ok := cm[f]; ok {
			m[f] = v
		} else {
			delete(m, f)
		}
	}
	next["apiVersion"] = cur["apiVersion"]
	next["kind"] = cur["kind"]
	m["generation"] = cm["generation"]
	m["resourceVersion"] = cm["resourceVersion"]
	if c.Default != nil {
		c.Default(k, next)
	}
	if reflect.DeepEqual(cur, next) {
		return Copy(cur), nil
	}
	if fe := validateOwnerRefs(next); fe != nil {
		return nil, c.invalid(k, key.Name, fe)
	}
	if c.Admit != nil {
		if fe := c.Admit(k, cur, next); fe != nil {
			return nil, c.invalid(k, key.Name, fe)
		}
	}
	if !specEqual(cur, next) {
		m["generation"] = Int(cur, "metadata", "generation") + 1
	}
	if dry {
		return Copy(next), nil
	}
	m["resourceVersion"] = c.nextRV()
	if Deleting(next) && len(Finalizers(next)) == 0 {
		c.commit("DELETED", key, Copy(cur), next)
		return Copy(next), nil
	}
	c.commit("MODIFIED", key, Copy(cur), next)
	return Copy(next), nil
}

// ---- verbs -----------------------------------------------------------------

func (c *Cluster) resolve(o Obj) (*KindInfo, Key, error) {
	gvk := GVKOf(o)
	k, err := c.Kind(gvk.GroupKind())
	if err != nil {
		return nil, Key{}, err
	}
	key := KeyOf(o)
	if !k.Namespaced {
		key.Namespace = ""
	}
	return k, key, nil
}

func (c *Cluster) Create(in Obj, dry bool) (Obj, error) {
	k, key, err := c.resolve(in)
	if err != nil {
		return nil, err
	}
	if key.Name == "" {
		return nil, apierrors.NewBadRequest("name is required")
	}
	if k.Namespaced && key.Namespace == "" {
		return nil, apierrors.NewBadRequest("an empty namespace may not be set during creation")
	}
	if _, ok := c.Objs[key]; ok {
		return nil, apierrors.NewAlreadyExists(gr(k), key.Name)
	}
	o := Copy(in)
	clean(o)
	m := Meta(o)
	if !k.Namespaced {
		delete(m, "namespace")
	}
	if k.Status {
		delete(o, "status")
	}
	delete(m, "deletionTimestamp")
	delete(m, "managedFields")
	o["apiVersion"] = k.GVK.GroupVersion().String()
	if c.Default != nil {
		c.Default(k, o)
	}
	if fe := validateOwnerRefs(o); fe != nil {
		return nil, c.invalid(k, key.Name, fe)
	}
	if c.Admit != nil {
		if fe := c.Admit(k, nil, o); fe != nil {
			return nil, c.invalid(k, key.Name, fe)
		}
	}
	m["generation"] = int64(1)
	m["creationTimestamp"] = c.Now().UTC().Format(time.RFC3339)
	if dry {
		m["uid"] = "dry-run"
		return o, nil
	}
	c.C.UID++
	m["uid"] = "uid-" + strconv.FormatUint(c.C.UID, 10)
	m["resourceVersion"] = c.nextRV()
	c.commit("ADDED", key, nil, o)
	return Copy(o), nil
}

func (c *Cluster) Get(gk schema.GroupKind, ns, name string) (Obj, error) {
	k, err := c.Kind(gk)
	if err != nil {
		return nil, err
	}
	if !k.Namespaced {
		ns = ""
	}
	o, ok := c.Objs[Key{gk.Group, gk.Kind, ns, name}]
	if !ok {
		return nil, apierrors.NewNotFound(gr(k), name)
	}
	return Copy(o), nil
}

// ListFrom lists from an arbitrary object map (store head or a process view).
func ListFrom(objs map[Key]Obj, gk schema.GroupKind, ns string, sel labels.Selector) []Obj {
	keys := make([]Key, 0)
	for key := range objs {
		if key.Group == gk.Group && key.Kind == gk.Kind && (ns == "" || key.Namespace == ns) {
			keys = append(keys, key)
		}
	}
	sort.Slice(keys, func(i, j int) bool { return keys[i].String() < keys[j].String() })
	out := make([]Obj, 0, len(keys))
	for _, key := range keys {
		o := objs[key]
		if sel != nil && !sel.Empty() && !sel.Matches(labels.Set(Labels(o))) {
			continue
		}
		out = append(out, Copy(o))
	}
	return out
}

func (c *Cluster) List(gk schema.GroupKind, ns string, sel labels.Selector) ([]Obj, error) {
	if _, err := c.Kind(gk); err != nil {
		return nil, err
	}
	return ListFrom(c.Objs, gk, ns, sel), nil
}

func (c *Cluster) checkRV(k *KindInfo, key Key, cur, in Obj) error {
	rv := Str(in, "metadata", "resourceVersion")
	if rv != "" && rv != Str(cur, "metadata", "resourceVersion") {
		return apierrors.NewConflict(gr(k), key.Name,
			fmt.Errorf("the object has been modified; please apply your changes to the latest version and try again"))
	}
	return nil
}

func (c *Cluster) Update(in Obj, dry bool) (Obj, error) {
	k, key, err := c.resolve(in)
	if err != nil {
		return nil, err
	}
	cur, ok := c.Objs[key]
	if !ok {
		return nil, apierrors.NewNotFound(gr(k), key.Name)
	}
	if uid := Str(in, "metadata", "uid"); uid != "" && uid != Str(cur, "metadata", "uid") {
		return nil, apierrors.NewConflict(gr(k), key.Name, fmt.Errorf("Precondition failed: UID in precondition: %v, UID in object meta: %v", uid, Str(cur, "metadata", "uid")))
	}
	if err := c.checkRV(k, key, cur, in); err != nil {
		return nil, err
	}
	next := Copy(in)
	if k.Status {
		if s, ok := cur["status"]; ok {
			next["status"] = runtime.DeepCopyJSONValue(s)
		} else {
			delete(next, "status")
		}
	}
	delete(Meta(next), "managedFields")
	return c.finishUpdate(k, key, cur, next, dry)
}

func (c *Cluster) UpdateStatus(in Obj) (Obj, error) {
	k, key, err := c.resolve(in)
	if err != nil {
		return nil, err
	}
	cur, ok := c.Objs[key]
	if !ok {
		return nil, apierrors.NewNotFound(gr(k), key.Name)
	}
	if uid := Str(in, "metadata", "uid"); uid != "" && uid != Str(cur, "metadata", "uid") {
		return nil, apierrors.NewConflict(gr(k), key.Name, fmt.Errorf("Precondition failed: UID in precondition: %v, UID in object meta: %v", uid, Str(cur, "metadata", "uid")))
	}
	if err := c.checkRV(k, key, cur, in); err != nil {
		return nil, err
	}
	next := Copy(cur)
	if s, ok := in["status"]; ok && s != nil {
		next["status"] = runtime.DeepCopyJSONValue(s)
	} else {
		delete(next, "status")
	}
	return c.finishUpdate(k, key, cur, next, false)
}

type DeleteOpts struct {
	UID, RV     string
	Propagation string // "", Background, Foreground, Orphan
	Dry         bool
}

func (c *Cluster) Delete(gk schema.GroupKind, ns, name string, o DeleteOpts) (Obj, error) {
	k, err := c.Kind(gk)
	if err != nil {
		return nil, err
	}
	if !k.Namespaced {
		ns = ""
	}
	key := Key{gk.Group, gk.Kind, ns, name}
	cur, ok := c.Objs[key]
	if !ok {
		return nil, apierrors.NewNotFound(gr(k), name)
	}
	if o.UID != "" && o.UID != Str(cur, "metadata", "uid") {
		return nil, apierrors.NewConflict(gr(k), name, fmt.Errorf("Precondition failed: UID in precondition: %v, UID in object meta: %v", o.UID, Str(cur, "metadata", "uid")))
	}
	if o.RV != "" && o.RV != Str(cur, "metadata", "resourceVersion") {
		return nil, apierrors.NewConflict(gr(k), name, fmt.Errorf("Precondition failed: ResourceVersion in precondition: %v, ResourceVersion in object meta: %v", o.RV, Str(cur, "metadata", "resourceVersion")))
	}
	if o.Dry {
		return Copy(cur), nil
	}
	next := Copy(cur)
	m := Meta(next)
	fins := Finalizers(next)
	add := func(f string) {
		if !HasFinalizer(next, f) {
			fins = append(fins, f)
		}
	}
	switch o.Propagation {
	case "Orphan":
		add("orphan")
	case "Foreground":
		add("foregroundDeletion")
	}
	if len(fins) > 0 {
		l := make([]any, len(fins))
		for i, f := range fins {
			l[i] = f
		}
		m["finalizers"] = l
		if Deleting(cur) && reflect.DeepEqual(Finalizers(cur), fins) {
			return Copy(cur), nil
		}
		if !Deleting(cur) {
			m["deletionTimestamp"] = c.Now().UTC().Format(time.RFC3339)
			m["deletionGracePeriodSeconds"] = int64(0)
			// like the API server (rest.BeforeDelete / registry store markAsDeleting): marking an
			// object as being deleted bumps its generation, so generation-filtered watches see it
			if g := Int(cur, "metadata", "generation"); g > 0 {
				m["generation"] = g + 1
			}
		}
		m["resourceVersion"] = c.nextRV()
		c.commit("MODIFIED", key, Copy(cur), next)
		return Copy(next), nil
	}
	c.commit("DELETED", key, Copy(cur), next)
	return Copy(next), nil
}

// ---- patches ---------------------------------------------------------------

func mergePatch(dst Obj, patch Obj) {
	for k, v := range patch {
		if v == nil {
			delete(dst, k)
			continue
		}
		pm, isMap := v.(map[string]any)
		if !isMap {
			dst[k] = runtime.DeepCopyJSONValue(v)
			continue
		}
		dm, ok := dst[k].(map[string]any)
		if !ok {
			dm = Obj{}
			dst[k] = dm
		}
		mergePatch(dm, pm)
	}
}

type PatchOpts struct {
	Type         string // "merge", "apply", "json"
	Force        bool
	FieldManager string
	Dry          bool
	Status       bool // status sub-resource
}

func (c *Cluster) Patch(gk schema.GroupKind, ns, name string, data []byte, o PatchOpts) (Obj, error) {
	k, err := c.Kind(gk)
	if err != nil {
		return nil, err
	}
	if !k.Namespaced {
		ns = ""
	}
	key := Key{gk.Group, gk.Kind, ns, name}
	var p Obj
	if o.Type != "json" {
		if err := utiljson.Unmarshal(data, &p); err != nil {
			return nil, apierrors.NewBadRequest("invalid patch: " + err.Error())
		}
	}
	cur, exists := c.Objs[key]
	switch o.Type {
	case "merge":
		if !exists {
			return nil, apierrors.NewNotFound(gr(k), name)
		}
		if rv := Str(p, "metadata", "resourceVersion"); rv != "" && rv != Str(cur, "metadata", "resourceVersion") {
			return nil, apierrors.NewConflict(gr(k), name, fmt.Errorf("the object has been modified; please apply your changes to the latest version and try again"))
		}
		next := Copy(cur)
		if o.Status {
			st, _ := p["status"].(map[string]any)
			mergePatch(next, Obj{"status": st})
		} else {
			if k.Status {
				delete(p, "status")
			}
			mergePatch(next, p)
		}
		return c.finishUpdate(k, key, cur, next, o.Dry)
	case "apply":
		return c.apply(k, key, cur, exists, p, o)
	default:
		return nil, apierrors.NewBadRequest("simulated API server: patch type " + o.Type + " not supported")
	}
}

// leafPaths collects all leaf paths of a JSON object (lists are leaves).
func leafPaths(prefix string, v any, out map[string]bool) {
	m, ok := v.(map[string]any)
	if !ok || len(m) == 0 {
		out[prefix] = true
		return
	}
	for k, x := range m {
		leafPaths(prefix+"\x00"+k, x, out)
	}
}

func removePath(o Obj, path []string) {
	if len(path) == 0 {
		return
	}
	if len(path) == 1 {
		delete(o, path[0])
		return
	}
	m, ok := o[path[0]].(map[string]any)
	if !ok {
		return
	}
	removePath(m, path[1:])
	if len(m) == 0 {
		delete(o, path[0])
	}
}

func refUIDs(l any) map[string]bool {
	out := map[string]bool{}
	ll, _ := l.([]any)
	for _, x := range ll {
		if m, ok := x.(map[string]any); ok {
			if u, _ := m["uid"].(string); u != "" {
				out[u] = true
			}
		}
	}
	return out
}

func (c *Cluster) apply(k *KindInfo, key Key, cur Obj, exists bool, body Obj, o PatchOpts) (Obj, error) {
	if o.FieldManager == "" {
		return nil, apierrors.NewBadRequest("PatchOptions.meta.k8s.io \"\" is invalid: fieldManager: Required value: is required for apply patch")
	}
	if Get(body, "metadata", "managedFields") != nil {
		return nil, apierrors.NewBadRequest("metadata.managedFields must be nil")
	}
	bgvk := GVKOf(body)
	if bgvk.Kind != "" && bgvk.GroupKind() != k.GVK.GroupKind() {
		return nil, apierrors.NewBadRequest("apply body kind does not match request")
	}
	body = Copy(body)
	if k.Status {
		delete(body, "status")
	}
	bm := Meta(body)
	if bn, _ := bm["name"].(string); bn != "" && bn != key.Name {
		return nil, apierrors.NewBadRequest("the name of the object does not match the name on the URL")
	}
	if k.Namespaced {
		if bns, _ := bm["namespace"].(string); bns != "" && bns != key.Namespace {
			return nil, apierrors.NewBadRequest("the namespace of the provided object does not match the namespace sent on the request")
		}
	}
	if !exists {
		if rv, _ := bm["resourceVersion"].(string); rv != "" {
			return nil, apierrors.NewConflict(gr(k), key.Name, fmt.Errorf("resourceVersion set on apply of a non-existing object"))
		}
		bm["name"] = key.Name
		if k.Namespaced {
			bm["namespace"] = key.Namespace
		}
		body["apiVersion"] = k.GVK.GroupVersion().String()
		body["kind"] = k.GVK.Kind
		out, err := c.Create(body, o.Dry)
		if err != nil {
			return nil, err
		}
		if !o.Dry {
			c.applied[key] = map[string]Obj{o.FieldManager: appliedView(body)}
		}
		return out, nil
	}
	if rv, _ := bm["resourceVersion"].(string); rv != "" && rv != Str(cur, "metadata", "resourceVersion") {
		return nil, apierrors.NewConflict(gr(k), key.Name, fmt.Errorf("the object has been modified; please apply your changes to the latest version and try again"))
	}
	if uid, _ := bm["uid"].(string); uid != "" && uid != Str(cur, "metadata", "uid") {
		return nil, apierrors.NewConflict(gr(k), key.Name, fmt.Errorf("uid mismatch"))
	}
	prev := c.applied[key][o.FieldManager]
	if prev == nil && !o.Force {
		return nil, apierrors.NewConflict(gr(k), key.Name, fmt.Errorf("Apply failed with 1 conflict: conflict with another manager"))
	}
	av := appliedView(body)
	next := Copy(cur)
	// remove what this manager applied before and no longer applies
	if prev != nil {
		oldP, newP := map[string]bool{}, map[string]bool{}
		leafPaths("", prev, oldP)
		leafPaths("", av, newP)
		gone := make([]string, 0)
		for p := range oldP {
			if !newP[p] && p != "" {
				gone = append(gone, p)
			}
		}
		sort.Strings(gone)
		for _, p := range gone {
			path := strings.Split(p, "\x00")[1:]
			if len(path) >= 2 && path[0] == "metadata" && path[1] == "ownerReferences" {
				continue // handled below
			}
			// only remove a leaf whose prefix is not a newly applied leaf
			removePath(next, path)
		}
	}
	// ownerReferences: associative list keyed by uid
	prevRefs := refUIDs(Get(prev, "metadata", "ownerReferences"))
	newRefs, _ := Get(av, "metadata", "ownerReferences").([]any)
	newUIDs := refUIDs(newRefs)
	var merged []any
	for _, r := range newRefs {
		merged = append(merged, runtime.DeepCopyJSONValue(r))
	}
	if curRefs, ok := Get(cur, "metadata", "ownerReferences").([]any); ok {
		for _, r := range curRefs {
			rm, _ := r.(map[string]any)
			u, _ := rm["uid"].(string)
			if newUIDs[u] {
				continue
			}
			if prevRefs[u] {
				continue // applied before by this manager, dropped now
			}
			merged = append(merged, runtime.DeepCopyJSONValue(r))
		}
	}
	// merge body (without ownerReferences) into next
	bodyNoRefs := Copy(av)
	if m := metaRO(bodyNoRefs); m != nil {
		delete(m, "ownerReferences")
	}
	mergeApply(next, bodyNoRefs)
	nm := Meta(next)
	if len(merged) > 0 {
		nm["ownerReferences"] = merged
	} else {
		delete(nm, "ownerReferences")
	}
	out, err := c.finishUpdate(k, key, cur, next, o.Dry)
	if err != nil {
		return nil, err
	}
	if !o.Dry {
		if _, still := c.Objs[key]; still {
			if c.applied[key] == nil {
				c.applied[key] = map[string]Obj{}
			}
			c.applied[key][o.FieldManager] = av
		}
	}
	return out, nil
}

// appliedView is what is remembered as "applied by this manager".
func appliedView(body Obj) Obj {
	v := Copy(body)
	delete(v, "apiVersion")
	delete(v, "kind")
	if m := metaRO(v); m != nil {
		for _, f := range []string{"name", "namespace", "resourceVersion", "uid", "creationTimestamp", "generation"} {
			delete(m, f)
		}
		if len(m) == 0 {
			delete(v, "metadata")
		}
	}
	return v
}

// mergeApply merges maps recursively; lists and scalars are replaced.
func mergeApply(dst, src Obj) {
	for k, v := range src {
		sm, isMap := v.(map[string]any)
		if !isMap {
			dst[k] = runtime.DeepCopyJSONValue(v)
			continue
		}
		dm, ok := dst[k].(map[string]any)
		if !ok {
			dm = Obj{}
			dst[k] = dm
		}
		mergeApply(dm, sm)
	}
}

// ---- raw (third-party / test) access ----------------------------------------

// Mutate applies fn to a copy of the stored object and commits the result as an
// update that bypasses optimistic concurrency (third-party actors use it for
// single atomic edits). Status may be changed too.
func (c *Cluster) Mutate(key Key, fn func(o Obj)) (Obj, error) {
	k, err := c.Kind(key.GK())
	if err != nil {
		return nil, err
	}
	cur, ok := c.Objs[key]
	if !ok {
		return nil, apierrors.NewNotFound(gr(k), key.Name)
	}
	next := Copy(cur)
	fn(next)
	next = Normalize(next)
	return c.finishUpdate(k, key, cur, next, false)
}

// OwnerRefs returns the native owner references of an object.
func OwnerRefs(o Obj) []metav1.OwnerReference {
	l, _ := Get(o, "metadata", "ownerReferences").([]any)
	out := make([]metav1.OwnerReference, 0, len(l))
	for _, x := range l {
		m, ok := x.(map[string]any)
		if !ok {
			continue
		}
		r := metav1.OwnerReference{}
		r.APIVersion, _ = m["apiVersion"].(string)
		r.Kind, _ = m["kind"].(string)
		r.Name, _ = m["name"].(string)
		u, _ := m["uid"].(string)
		r.UID = types.UID(u)
		if b, ok := m["controller"].(bool); ok {
			bb := b
			r.Controller = &bb
		}
		out = append(out, r)
	}
	return out
}

// validateOwnerRefs mirrors the API server's metadata validation: at most one
// owner reference may be the managing controller.
func validateOwnerRefs(o Obj) *field.Error {
	n := 0
	for _, r := range OwnerRefs(o) {
		if r.Controller != nil && *r.Controller {
			n++
		}
	}
	if n > 1 {
		return field.Invalid(field.NewPath("metadata", "ownerReferences"), nil, "Only one reference can have Controller set to true")
	}
	return nil
}
