package cs

import (
	"container/heap"
	"context"
	"errors"
	"fmt"
	"runtime/debug"
	"sort"
	"strings"
	"testing/synctest"
	"time"

	apierrors "k8s.io/apimachinery/pkg/api/errors"
	"k8s.io/apimachinery/pkg/runtime/schema"
	"sigs.k8s.io/controller-runtime/pkg/reconcile"

	"package-operator.run/internal/packages/verifsim/store"
)

// ---- timers -------------------------------------------------------------------

type timer struct {
	at   time.Time
	seq  uint64
	name string
	fn   func()
}

type timerHeap []*timer

func (h timerHeap) Len() int { return len(h) }
func (h timerHeap) Less(i, j int) bool {
	if h[i].at.Equal(h[j].at) {
		return h[i].seq < h[j].seq
	}
	return h[i].at.Before(h[j].at)
}
func (h timerHeap) Swap(i, j int) { h[i], h[j] = h[j], h[i] }
func (h *timerHeap) Push(x any)   { *h = append(*h, x.(*timer)) }
func (h *timerHeap) Pop() any {
	old := *h
	n := len(old)
	x := old[n-1]
	*h = old[:n-1]
	return x
}

// After schedules fn on the simulated clock.
func (w *World) After(d time.Duration, name string, fn func()) {
	w.timerSeq++
	heap.Push(&w.timers, &timer{at: time.Now().Add(d), seq: w.timerSeq, name: name, fn: fn})
}

// tick jumps the clock to the next timer and fires it.
func (w *World) tick() {
	if w.timers.Len() == 0 {
		return
	}
	t := heap.Pop(&w.timers).(*timer)
	if d := time.Until(t.at); d > 0 {
		time.Sleep(d)
	}
	w.Tracef("tick: %s", t.name)
	t.fn()
}

// ---- actors --------------------------------------------------------------------

const (
	stIdle = iota
	stParked
	stRunning
	stDone
)

const (
	msgStart = iota
	msgProceed
	msgKill
)

type resumeMsg struct {
	kind  int
	key   reconcile.Request
	fault string
	err   error
}

// Actor is one controller worker goroutine.
type Actor struct {
	ID     string
	Proc   *Process
	Ctrl   *Controller
	w      *World
	resume chan resumeMsg
	state  int
	dead   bool

	pending *Req
	pass    *Pass
}

var errCrashed = errors.New("simulated: process crashed")

func (a *Actor) loop() {
	for {
		a.state = stIdle
		m := <-a.resume
		if m.kind == msgKill {
			a.state = stDone
			return
		}
		a.state = stRunning
		a.runPass(m.key)
		if a.dead {
			a.state = stDone
			return
		}
	}
}

func (a *Actor) kill() {
	a.dead = true
	if a.state == stIdle || a.state == stParked {
		a.resume <- resumeMsg{kind: msgKill}
	}
}

func (a *Actor) runPass(key reconcile.Request) {
	w := a.w
	w.passID++
	p := &Pass{ID: w.passID, Proc: a.Proc.Name, Ctrl: a.Ctrl.Name, Key: key.NamespacedName, StartSeq: w.C.Seq, Notes: map[string]any{}}
	a.pass = p
	w.Passes = append(w.Passes, p)
	w.Stats.Passes++
	ctx := withActor(a.Proc.ctx, a)
	var res reconcile.Result
	var err error
	func() {
		defer func() {
			if rec := recover(); rec != nil {
				p.Panic = fmt.Sprintf("%v\n%s", rec, debug.Stack())
				err = fmt.Errorf("panic: %v", rec)
			}
		}()
		res, err = a.Ctrl.Rec.Reconcile(ctx, key)
	}()
	p.Done = true
	p.Err = err
	if w.Cfg.Trace && (err != nil || p.Panic != "") {
		msg := fmt.Sprint(err)
		if len(msg) > 300 {
			msg = msg[:300]
		}
		w.Tracef("PASS %d of %s %s ended with error: %s", p.ID, p.Ctrl, p.Key, msg)
	}
	p.EndSeq = w.C.Seq
	p.Requeue = res.Requeue
	p.After = res.RequeueAfter.Seconds()
	a.pass = nil
	if a.dead {
		p.Crashed = true
		return
	}
	q := a.Ctrl.Q
	switch {
	case err != nil:
		q.AddRateLimited(key)
	case res.RequeueAfter > 0:
		q.Forget(key)
		q.AddAfter(key, res.RequeueAfter)
	case res.Requeue:
		q.AddRateLimited(key)
	default:
		q.Forget(key)
	}
	q.Done(key)
	for _, m := range w.Monitors {
		m.OnPassEnd(w, p)
	}
}

// runawayRequests is far above what any pass of the generated scenarios needs (tens of requests).
const runawayRequests = 600

// record appends a request to the history and feeds the monitors.
func (w *World) record(a *Actor, r *Req) {
	if r.Seq == 0 {
		r.Seq = w.C.NextSeq()
	}
	if a != nil {
		r.Actor = a.ID
		r.Pass = a.pass
		if a.pass != nil {
			a.pass.Reqs = append(a.pass.Reqs, r)
			if len(a.pass.Reqs) == runawayRequests {
				// a reconcile pass that keeps issuing API requests without end (a retry loop that never
				// makes progress) is the API-level form of unbounded recursion
				w.Report(Violation{Property: "C19", Rule: "unbounded-recursion", Sig: "runaway-pass/" + shortSite(r.Site), Seq: r.Seq,
					Msg: fmt.Sprintf("pass %d of %s %s has issued %d API requests and is still going; the last ones: %s", a.pass.ID, a.pass.Ctrl, a.pass.Key, runawayRequests, r.String())})
			}
		}
	}
	w.Hist = append(w.Hist, r)
	w.Stats.Requests++
	if w.Cfg.Trace {
		w.Tracef("%s", r.String())
	}
	for _, m := range w.Monitors {
		m.OnReq(w, r)
	}
}

// exec runs a request against the store and records it.
func (w *World) exec(a *Actor, cl *store.Cluster, r *Req, run func() (store.Obj, error)) error {
	r.Seq = w.C.NextSeq()
	key := r.Key()
	if r.IsWrite() {
		r.Before = store.Copy(cl.Objs[key])
	}
	n := len(cl.Log)
	res, err := run()
	r.Applied = true
	r.Changed = len(cl.Log) > n
	if r.IsWrite() {
		r.After = store.Copy(cl.Objs[key])
		r.Deleted = r.Before != nil && r.After == nil
	}
	if err == nil && res != nil {
		r.Returned = res
	}
	r.Err = err
	r.StoreErr = err
	return err
}

func (c *Client) do2(ctx context.Context, r *Req, run func() (store.Obj, error), decode func(store.Obj) error) error {
	w := c.w
	a := actorFrom(ctx)
	finish := func(err error) error {
		if err == nil && decode != nil {
			if derr := decode(r.Returned); derr != nil {
				err = derr
				r.Err = derr
			}
		}
		w.record(a, r)
		return err
	}
	if a == nil {
		// not a simulated worker (scheduler goroutine): execute directly
		return finish(w.exec(nil, c.cl, r, run))
	}
	if a.dead || a.Proc.Dead {
		return errCrashed
	}
	a.pending = r
	a.state = stParked
	m := <-a.resume
	a.state = stRunning
	a.pending = nil
	if m.kind == msgKill {
		return errCrashed
	}
	switch m.fault {
	case "":
		return finish(w.exec(a, c.cl, r, run))
	case "policy":
		r.Err = m.err
		r.StoreErr = m.err
		w.record(a, r)
		return m.err
	case "err-before":
		r.Fault = "err-before"
		r.Err = m.err
		a.pass.Faulted = true
		w.record(a, r)
		return m.err
	case "lost-response":
		_ = w.exec(a, c.cl, r, run)
		r.Fault = "lost-response"
		r.Returned = nil
		r.Err = m.err
		a.pass.Faulted = true
		w.record(a, r)
		return m.err
	case "crash-after":
		// the request reaches the API server, then the process dies
		_ = w.exec(a, c.cl, r, run)
		r.Fault = "crash-after"
		r.Returned = nil
		r.Err = errCrashed
		a.pass.Faulted = true
		w.record(a, r)
		return errCrashed
	}
	panic("unknown fault " + m.fault)
}

// ---- scheduler -------------------------------------------------------------------

const (
	actResume = iota
	actStart
	actDeliver
	actAgent
	actUser
	actCompact
	actDup
	actCrash
	actTick
)

type action struct {
	kind   int
	weight int
	label  string
	actor  *Actor
	ctrl   *Controller
	key    reconcile.Request
	proc   *Process
	cl     *store.Cluster
	op     AgentOp
}

func (w *World) faultsOn() bool {
	return w.phase == phaseDisturbed && w.Cfg.FaultBudget > w.faultsUsed()
}

func (w *World) faultsUsed() int {
	n := 0
	for _, v := range w.Stats.Faults {
		n += v
	}
	return n
}

func (w *World) liveActors() []*Actor {
	var out []*Actor
	for _, p := range w.Procs {
		if p.Dead {
			continue
		}
		for _, c := range p.Ctrls {
			out = append(out, c.Workers...)
		}
	}
	return out
}

func (w *World) enabled() []action {
	var acts []action
	calm := w.phase == phaseCalm
	// 1. deliveries
	for _, p := range w.Procs {
		if p.Dead {
			continue
		}
		for _, cl := range w.Clusters() {
			if _, used := p.views[cl.Name]; !used {
				continue
			}
			if p.lag(cl) > 0 {
				acts = append(acts, action{kind: actDeliver, weight: 10, proc: p, cl: cl, label: "deliver " + p.Name + "/" + cl.Name})
			}
		}
	}
	// 2. parked actors
	for _, a := range w.liveActors() {
		if a.state == stParked {
			acts = append(acts, action{kind: actResume, weight: 10, actor: a, label: "resume " + a.ID})
		}
	}
	// 3. idle workers with work
	for _, p := range w.Procs {
		if p.Dead {
			continue
		}
		for _, c := range p.Ctrls {
			var idle *Actor
			for _, a := range c.Workers {
				if a.state == stIdle {
					idle = a
					break
				}
			}
			if idle == nil {
				continue
			}
			for _, k := range c.Q.Runnable() {
				acts = append(acts, action{kind: actStart, weight: 6, actor: idle, ctrl: c, key: k, label: "start " + c.Name + " " + k.String()})
			}
		}
	}
	// 4. agents
	for _, ag := range w.agents {
		for _, op := range ag.Ops(w, calm) {
			acts = append(acts, action{kind: actAgent, weight: op.Weight, op: op, label: ag.Name() + ": " + op.Label})
		}
	}
	// 5. user operations (any-time mode only; at-quiescence mode applies them in runEpochs)
	if !calm && !w.Cfg.UserOpsAtQuiescence && w.Scenario != nil && w.Scenario.nextUser < len(w.Scenario.UserOps) {
		acts = append(acts, action{kind: actUser, weight: 3, label: "user: " + w.Scenario.UserOps[w.Scenario.nextUser].Label})
	}
	if !calm {
		// 6. delivery faults
		for _, p := range w.Procs {
			if p.Dead {
				continue
			}
			for _, cl := range w.Clusters() {
				if _, used := p.views[cl.Name]; !used {
					continue
				}
				if w.Cfg.Faults["compaction"] && p.lag(cl) > 1 && w.Stats.Faults["compaction"] < 6 {
					acts = append(acts, action{kind: actCompact, weight: 1, proc: p, cl: cl, label: "compact " + p.Name + "/" + cl.Name})
				}
				if w.Cfg.Faults["duplicate"] && p.view(cl).seen > 0 && w.Stats.Faults["duplicate"] < 6 {
					acts = append(acts, action{kind: actDup, weight: 1, proc: p, cl: cl, label: "duplicate " + p.Name + "/" + cl.Name})
				}
			}
		}
		// 7. crash at an arbitrary instant (crashes bound to a request are drawn in resume)
		if w.Cfg.Faults["crash"] && w.faultsOn() {
			for _, p := range w.Procs {
				if !p.Dead {
					acts = append(acts, action{kind: actCrash, weight: 1, proc: p, label: "crash " + p.Name})
				}
			}
		}
	}
	// 8. time
	if w.timers.Len() > 0 {
		acts = append(acts, action{kind: actTick, weight: 1, label: "tick"})
	}
	return acts
}

// waitSettled lets the released goroutine run until every goroutine is parked.
func (w *World) waitSettled() {
	synctest.Wait()
	for i := 0; ; i++ {
		busy := false
		for _, p := range w.Procs {
			for _, c := range p.Ctrls {
				for _, a := range c.Workers {
					if a.state == stRunning {
						busy = true
					}
				}
			}
		}
		for _, a := range w.zombies {
			if a.state == stRunning {
				busy = true
			}
		}
		if !busy {
			return
		}
		if i > 100000 {
			w.failed = errors.New("machinery: actor neither parks nor finishes")
			w.stopNow = true
			return
		}
		// blocked in a real sleep inside PKO code (retry back-off): advance the clock
		time.Sleep(time.Millisecond)
		synctest.Wait()
	}
}

var simErrKinds = []string{"InternalError", "Timeout", "TooManyRequests", "Conflict"}

func simError(kind string, r *Req) error {
	gr := schema.GroupResource{Group: r.GVK.Group, Resource: strings.ToLower(r.GVK.Kind) + "s"}
	switch kind {
	case "Timeout":
		return apierrors.NewTimeoutError("simulated timeout", 1)
	case "TooManyRequests":
		return apierrors.NewTooManyRequests("simulated throttling", 1)
	case "Conflict":
		return apierrors.NewConflict(gr, r.Name, errors.New("simulated conflict"))
	}
	return apierrors.NewInternalError(errors.New("simulated internal error"))
}

// doResume releases a parked actor, possibly with a fault bound to its request.
func (w *World) doResume(a *Actor) {
	r := a.pending
	msg := resumeMsg{kind: msgProceed}
	if len(w.Denied) > 0 && !r.Cached && r.IsWrite() && r.Verb != "delete" && w.Denied[r.Cluster+"|"+r.Key().String()] {
		// not a fault: the environment's standing answer to this request, dry run or not
		w.Stats.Probe("admission-policy-denied-request")
		msg.fault = "policy"
		msg.err = apierrors.NewForbidden(schema.GroupResource{Group: r.GVK.Group, Resource: strings.ToLower(r.GVK.Kind) + "s"}, r.Name, errors.New("denied by simulated admission policy"))
		a.resume <- msg
		w.waitSettled()
		return
	}
	if w.Cfg.SweepKind != "" && !r.Cached {
		n := w.sweepCount
		w.sweepCount++
		if w.Cfg.SweepKind == "count" && a.pass != nil {
			if o := ownerOfPass(a.pass); o != nil && isTeardownOwner(o) {
				w.sweepTeardown = append(w.sweepTeardown, n)
			}
		}
		if n == w.Cfg.SweepAt {
			switch w.Cfg.SweepKind {
			case "err-before":
				msg.fault, msg.err = "err-before", simError("InternalError", r)
				w.Stats.Fault("sweep/err-before")
			case "lost-response":
				msg.fault, msg.err = "lost-response", apierrors.NewTimeoutError("simulated lost response", 1)
				w.Stats.Fault("sweep/lost-response")
			case "crash-before":
				w.Stats.Fault("sweep/crash-before")
				w.Crash(a.Proc, w.restartDelay())
				return
			case "crash-after":
				w.Stats.Fault("sweep/crash-after")
				msg.fault = "crash-after"
				proc := a.Proc
				w.zombies = append(w.zombies, a)
				a.resume <- msg
				w.waitSettled()
				w.Crash(proc, w.restartDelay())
				return
			}
			w.Tracef("SWEEP FAULT %s on request #%d: %s %s %s/%s by %s", w.Cfg.SweepKind, n, r.Verb, r.GVK.Kind, r.NS, r.Name, a.ID)
			a.resume <- msg
			w.waitSettled()
			return
		}
	}
	if a.Proc.partition > 0 && !r.Cached {
		a.Proc.partition--
		msg.fault = "err-before"
		msg.err = apierrors.NewTimeoutError("simulated partition", 1)
		w.Stats.Fault("partition-request")
	} else if w.faultsOn() && !r.Cached {
		wts := []int{w.Cfg.NoFaultWeight, 0, 0, 0, 0, 0}
		if w.Cfg.Faults["err-before"] {
			wts[1] = 3
		}
		if w.Cfg.Faults["lost-response"] && r.IsWrite() && !r.DryRun {
			wts[2] = 3
		}
		if w.Cfg.Faults["crash"] {
			wts[3], wts[4] = 1, 1
		}
		if w.Cfg.Faults["partition"] {
			wts[5] = 1
		}
		// swarm bias: one verb class per run is hit several times as often, so that coincidences
		// of faults on the same kind of request (two failed status writes, ...) are reachable
		if w.Cfg.HotVerb != "" && r.Verb == w.Cfg.HotVerb {
			for i := 1; i < len(wts); i++ {
				wts[i] *= 6
			}
		}
		switch w.Sch.Weighted(wts, "fault@"+r.Verb) {
		case 1:
			kinds := simErrKinds
			if !r.IsWrite() {
				kinds = simErrKinds[:3]
			}
			k := kinds[w.Sch.Intn(len(kinds), "errkind")]
			msg.fault, msg.err = "err-before", simError(k, r)
			w.Stats.Fault("err-before")
			w.Stats.Fault("err-before/" + k)
		case 2:
			msg.fault, msg.err = "lost-response", apierrors.NewTimeoutError("simulated lost response", 1)
			w.Stats.Fault("lost-response")
		case 3:
			w.Stats.Fault("crash-before-request")
			w.Crash(a.Proc, w.restartDelay())
			return
		case 4:
			w.Stats.Fault("crash-after-request")
			msg.fault = "crash-after"
			proc := a.Proc
			w.zombies = append(w.zombies, a)
			a.resume <- msg
			w.waitSettled()
			w.Crash(proc, w.restartDelay())
			return
		case 5:
			a.Proc.partition = 2 + w.Sch.Intn(6, "partition-len")
			w.Stats.Fault("partition")
			msg.fault = "err-before"
			msg.err = apierrors.NewTimeoutError("simulated partition", 1)
		}
	}
	if msg.fault != "" {
		w.Tracef("FAULT %s on %s %s %s/%s by %s", msg.fault, r.Verb, r.GVK.Kind, r.NS, r.Name, a.ID)
	}
	a.resume <- msg
	w.waitSettled()
}

func (w *World) restartDelay() time.Duration {
	return time.Duration(1+w.Sch.Intn(20, "restart-delay")) * time.Second
}

func (w *World) apply(act action) {
	switch act.kind {
	case actResume:
		if !w.Cfg.Granular {
			w.sticky = act.actor
		}
		w.doResume(act.actor)
	case actStart:
		q := act.ctrl.Q
		delete(q.dirty, act.key)
		q.processing[act.key] = true
		if !w.Cfg.Granular {
			w.sticky = act.actor
		}
		act.actor.resume <- resumeMsg{kind: msgStart, key: act.key}
		w.waitSettled()
	case actDeliver:
		act.proc.Deliver(act.cl)
	case actAgent:
		act.op.Do(w)
	case actUser:
		w.applyNextUserOp()
	case actCompact:
		// relist: skip to the head, delivering only the latest event per key
		p, cl := act.proc, act.cl
		v := p.view(cl)
		// Like an informer after "resource version too old": the new list replaces the store and one
		// event per key is synthesised from (what the informer had, what the list holds now) - an object
		// deleted and re-created meanwhile shows up as an update from the old to the new object, and as
		// a delete for an informer whose selector no longer matches it.
		last := map[store.Key]int{}
		before := map[store.Key]store.Obj{}
		from := v.seen
		for i := from; i < len(cl.Log); i++ {
			k := cl.Log[i].Key
			if _, ok := last[k]; !ok {
				if o, had := v.objs[k]; had {
					before[k] = store.Copy(o)
				} else {
					before[k] = nil
				}
			}
			last[k] = i
		}
		var order []store.Key
		for i := from; i < len(cl.Log); i++ {
			ev := cl.Log[i]
			_ = p.advance(cl)
			if last[ev.Key] == i {
				order = append(order, ev.Key)
			}
		}
		for _, k := range order {
			b := before[k]
			cur, ok := v.objs[k]
			switch {
			case b == nil && ok:
				p.dispatch(cl, store.Event{Type: "ADDED", Key: k, After: store.Copy(cur)})
			case b != nil && ok:
				p.dispatch(cl, store.Event{Type: "MODIFIED", Key: k, Before: b, After: store.Copy(cur)})
			case b != nil && !ok:
				p.dispatch(cl, store.Event{Type: "DELETED", Key: k, Before: b, After: b})
			}
		}
		w.Stats.Fault("compaction")
	case actDup:
		p, cl := act.proc, act.cl
		v := p.view(cl)
		idx := v.seen - 1 - w.Sch.Intn(min(v.seen, 4), "dup-which")
		ev := cl.Log[idx]
		if cur, ok := v.objs[ev.Key]; ok {
			// resync: update event with identical old and new object
			p.dispatch(cl, store.Event{Type: "MODIFIED", Key: ev.Key, Before: cur, After: cur})
			w.Stats.Fault("duplicate")
		}
	case actCrash:
		w.Crash(act.proc, w.restartDelay())
	case actTick:
		w.tick()
	}
}

// Step performs one scheduler step. It returns false when nothing is enabled.
func (w *World) Step() bool {
	w.stepNo++
	w.Stats.Steps++
	for _, p := range w.Procs {
		p.flushPending()
	}
	if w.sticky != nil {
		if w.sticky.state == stParked && !w.sticky.dead {
			w.doResume(w.sticky)
			w.afterStep()
			return true
		}
		w.sticky = nil
	}
	acts := w.enabled()
	if len(acts) == 0 {
		return false
	}
	var pick action
	if w.phase == phaseCalm {
		pick = w.fairPick(acts)
	} else {
		wts := make([]int, len(acts))
		for i, a := range acts {
			wts[i] = a.weight
		}
		pick = acts[w.Sch.Weighted(wts, "sched")]
	}
	if w.Cfg.Trace && pick.kind != actResume && pick.kind != actStart {
		w.Tracef("%s", pick.label)
	}
	w.apply(pick)
	w.afterStep()
	return true
}

func (w *World) afterStep() {
	for _, p := range w.Procs {
		p.flushPending()
	}
	for _, m := range w.Monitors {
		m.OnStep(w)
	}
	w.noteState()
}

// fairPick is the deterministic fair scheduler of the calm phase: deliveries
// first (caches catch up), then parked actors, then new passes, then benign
// agents; time only advances when nothing else can happen.
func (w *World) fairPick(acts []action) action {
	if w.fairRandom {
		// another fair schedule: uniformly among everything that is not the clock
		var cand []action
		for _, a := range acts {
			if a.kind != actTick {
				cand = append(cand, a)
			}
		}
		if len(cand) > 0 {
			return cand[w.Sch.Intn(len(cand), "fair-random")]
		}
		return acts[len(acts)-1]
	}
	order := []int{actDeliver, actResume, actStart, actAgent}
	for _, k := range order {
		var cand []action
		for _, a := range acts {
			if a.kind == k {
				cand = append(cand, a)
			}
		}
		if len(cand) > 0 {
			w.rr++
			return cand[w.rr%len(cand)]
		}
	}
	return acts[len(acts)-1] // tick
}

// onlyTime reports whether nothing but the clock can make progress.
func (w *World) onlyTime() bool {
	for _, p := range w.Procs {
		p.flushPending()
	}
	for _, a := range w.enabled() {
		if a.kind != actTick {
			return false
		}
	}
	return true
}

// storeVersion identifies the durable state (grows with every committed change).
func (w *World) storeVersion() int {
	n := 0
	for _, cl := range w.Clusters() {
		n += len(cl.Log)
	}
	return n
}

// Settle runs the calm phase until the system is stable: nothing is runnable
// and firing every pending timer once more changes nothing in the store.
// Returns false if the step budget is exhausted first.
func (w *World) Settle(budget int) bool {
	w.phase = phaseCalm
	w.sticky = nil
	steps := 0
	quietRounds := 0
	for !w.stopNow {
		for !w.onlyTime() {
			if !w.Step() {
				break
			}
			steps++
			if steps > budget || w.stopNow {
				return false
			}
		}
		if w.timers.Len() == 0 {
			return true
		}
		// probe round: fire every timer pending now
		ver := w.storeVersion()
		n := w.timers.Len()
		for i := 0; i < n && w.timers.Len() > 0; i++ {
			w.tick()
			steps++
			for !w.onlyTime() {
				if !w.Step() {
					break
				}
				steps++
				if steps > budget || w.stopNow {
					return false
				}
			}
		}
		if w.storeVersion() == ver && w.noRestartPending() {
			quietRounds++
			if quietRounds >= 2 {
				return true
			}
		} else {
			quietRounds = 0
		}
		if steps > budget {
			return false
		}
	}
	return false
}

func (w *World) noRestartPending() bool {
	for _, p := range w.Procs {
		if p.Dead {
			return false
		}
	}
	return true
}

// Disturb runs the disturbed phase for n scheduler steps.
func (w *World) Disturb(n int) {
	w.phase = phaseDisturbed
	for i := 0; i < n && !w.stopNow; i++ {
		if !w.Step() {
			break
		}
	}
}

// Shutdown ends all goroutines of the bubble.
func (w *World) Shutdown() {
	for _, p := range w.Procs {
		if p.Dead {
			continue
		}
		p.Dead = true
		for _, c := range p.Ctrls {
			for _, a := range c.Workers {
				a.kill()
			}
		}
	}
	w.waitSettled()
}

func sortedStrings(m map[string]int) []string {
	out := make([]string, 0, len(m))
	for k := range m {
		out = append(out, k)
	}
	sort.Strings(out)
	return out
}
