package cs

import (
	"fmt"

	"package-operator.run/internal/packages/verifsim/store"
)

// MonC11: no write before preflight passes, and never outside the owner's namespace.
type MonC11 struct{ BaseMon }

func (m *MonC11) ID() string { return "C11" }

// refPreflight applies the preflight rules of the C11 statement to one listed
// object (as written in the spec) for an owner; "" means it passes.
func (w *World) refPreflight(cluster string, owner store.Obj, so SpecObject, namespaceRule bool) string {
	cl := w.Cluster(cluster)
	gvk := store.GVKOf(so.Obj)
	ki, err := cl.Kind(gvk.GroupKind())
	if err != nil {
		return "API not registered"
	}
	if l, _ := store.Get(so.Obj, "metadata", "ownerReferences").([]any); len(l) > 0 {
		return "carries ownerReferences"
	}
	ownerNS := store.Str(owner, "metadata", "namespace")
	objNS := store.Str(so.Obj, "metadata", "namespace")
	if namespaceRule && ownerNS != "" {
		if !ki.Namespaced {
			return "cluster-scoped kind under a namespaced owner"
		}
		if objNS != "" && objNS != ownerNS {
			return "foreign namespace"
		}
	}
	if b, _ := store.Get(so.Obj, "spec", "simInvalid").(bool); b {
		return "rejected by dry run"
	}
	if w.Denied[cluster+"|"+w.normKey(cluster, so.Key).String()] {
		return "rejected by dry run (admission policy in force)"
	}
	if ki.Namespaced && objNS == "" && ownerNS == "" {
		return "rejected by dry run (no namespace)"
	}
	return ""
}

func (m *MonC11) OnReq(w *World, r *Req) {
	if r.DryRun && r.Changed {
		w.Report(Violation{Property: "C11", Rule: "dry-run-persisted", Sig: r.Verb, Seq: r.Seq, Msg: "a dry-run request changed the store: " + r.String()})
		return
	}
	p := r.Pass
	if p == nil || r.DryRun || !r.IsWrite() {
		return
	}
	// escaped-namespace
	namespacedOwnerCtrl := p.Ctrl == "ObjectSet" || (p.Ctrl == "ObjectSetPhase" && p.Proc == "manager") || p.Ctrl == "ObjectTemplate"
	if !namespacedOwnerCtrl || p.Key.Namespace == "" {
		return
	}
	ki, err := w.Cluster(r.Cluster).Kind(r.GVK.GroupKind())
	if err != nil {
		return
	}
	m.touch()
	if !ki.Namespaced || r.NS != p.Key.Namespace {
		if !r.Applied {
			return
		}
		w.Report(Violation{Property: "C11", Rule: "escaped-namespace", Sig: shortSite(r.Site) + "/" + r.Verb, Seq: r.Seq,
			Msg: fmt.Sprintf("pass %d of namespaced %s %s issued %s on %s (namespaced kind=%v)", p.ID, p.Ctrl, p.Key, r.Verb, r.Key(), ki.Namespaced)})
	}
}

func (m *MonC11) OnPassEnd(w *World, p *Pass) {
	if !isObjectSetKind(p.Ctrl) && !isPhaseKind(p.Ctrl) {
		return
	}
	owner := ownerOfPass(p)
	if owner == nil || isTeardownOwner(owner) || isSpecPaused(owner) {
		return
	}
	for _, at := range w.DenyFlips {
		if at >= p.StartSeq && at <= p.EndSeq {
			return // admission changed its mind while the pass was under way: neither answer binds the pass
		}
	}
	if isPhaseKind(p.Ctrl) {
		class := store.Labels(owner)["package-operator.run/phase-class"]
		if (p.Proc == "manager") != (class == "default") {
			return
		}
	}
	tc := targetCluster(p)
	namespaceRule := p.Ctrl == "ObjectSet" || (p.Ctrl == "ObjectSetPhase" && p.Proc == "manager")
	objs := rolloutObjects(w, p, owner)
	// duplicates (ObjectSet only: across all phases incl. delegated and sliced)
	dup := false
	if isObjectSetKind(p.Ctrl) {
		seen := map[string]bool{}
		for _, so := range SpecObjects(owner, passSliceLookup(w, p, owner)) {
			k := so.Key
			k.Namespace = store.Str(so.Obj, "metadata", "namespace") // duplicates are judged as written
			id := store.GVKOf(so.Obj).GroupKind().String() + " " + k.Namespace + "/" + k.Name
			if seen[id] {
				dup = true
			}
			seen[id] = true
		}
	}
	bad := map[int]string{} // phase -> reason
	for _, so := range objs {
		if why := w.refPreflight(tc, owner, so, namespaceRule); why != "" {
			if _, ok := bad[so.Phase]; !ok {
				bad[so.Phase] = so.Key.String() + ": " + why
			}
		}
	}
	if !dup && len(bad) == 0 {
		return
	}
	m.touch()
	for _, r := range p.Reqs {
		if !r.IsWrite() || r.DryRun || r.Cluster != tc || r.GVK.Group == PKOGroup {
			continue
		}
		for _, so := range objs {
			if w.normKey(tc, so.Key) != r.Key() && so.Key != r.Key() {
				continue
			}
			if why, isBad := bad[so.Phase]; isBad || dup {
				if dup {
					why = "duplicate object in the ObjectSet"
				}
				w.Report(Violation{Property: "C11", Rule: "write-despite-violation", Sig: shortSite(r.Site) + "/" + r.Verb, Seq: r.Seq,
					Msg: fmt.Sprintf("pass %d of %s %s issued %s on %s although its phase fails preflight (%s)", p.ID, p.Ctrl, p.Key, r.Verb, r.Key(), why)})
				return
			}
		}
	}
	// reporting: only if the pass got as far as the failing phase
	if p.Faulted || p.Crashed || p.Panic != "" {
		return
	}
	reached := dup
	firstBad := -1
	for ph := range bad {
		if firstBad < 0 || ph < firstBad {
			firstBad = ph
		}
	}
	if !dup {
		// the failing phase is reached if the pass issued a dry-run for one of its objects or errored on it
		for _, r := range p.Reqs {
			for _, so := range objs {
				if so.Phase == firstBad && (w.normKey(tc, so.Key) == r.Key() || so.Key == r.Key()) {
					reached = true
				}
			}
		}
		if p.Err == nil {
			for _, r := range p.Reqs {
				if r.Verb == "update-status" {
					if c := FindCond(r.Body, "Available"); c != nil && c.Reason == "PreflightError" {
						reached = true
					}
				}
			}
		}
	}
	if !reached {
		return
	}
	reported := false
	for _, r := range p.Reqs {
		if r.Verb == "update-status" && r.Name == p.Key.Name && r.GVK.Kind == p.Ctrl {
			if c := FindCond(r.Body, "Available"); c != nil && c.Status == "False" && c.Reason == "PreflightError" {
				reported = true
			}
		}
	}
	if !reported && bad[firstBad] != "" {
		// a pass that found the violation again and left the stored report as it was (no status write at
		// all) has reported it just the same: the retry is owed for as long as the violation stands
		wrote := false
		for _, r := range p.Reqs {
			if r.Verb == "update-status" {
				wrote = true
			}
		}
		if c := FindCond(owner, "Available"); !wrote && c != nil && c.Status == "False" && c.Reason == "PreflightError" {
			reported = true
		}
	}
	if !reported {
		// an earlier phase may legitimately stop the pass (probe failure / collision) before the bad phase
		return
	}
	if p.After <= 0 && p.Err == nil {
		w.Report(Violation{Property: "C11", Rule: "not-reported", Sig: "no-retry", Seq: p.EndSeq,
			Msg: fmt.Sprintf("pass %d of %s %s reported PreflightError but scheduled no retry", p.ID, p.Ctrl, p.Key)})
	}
}
