package cs

import (
	"encoding/json"
	"fmt"
	"sort"
	"strings"

	"package-operator.run/internal/packages/verifsim/store"
)

// Projection is the abstract end state compared between a disturbed run and
// the undisturbed reference run (DESIGN.md §6 C10): managed objects (content
// minus server fields, owners by kind/name/controller flag, recorded revision),
// ObjectSets (lifecycle state, revision, condition statuses, controllerOf),
// deployment/package conditions and revision, phase objects, slices. UIDs,
// resourceVersions, generations, timestamps, messages and the status of
// managed objects are excluded.
func (w *World) Projection() map[string]string { return w.projection(false) }

func (w *World) projection(omitPhases bool) map[string]string {
	out := map[string]string{}
	for _, cl := range w.Clusters() {
		for _, k := range sortedKeys(cl.Objs) {
			o := cl.Objs[k]
			if k.Kind == "Namespace" || k.Name == "foreign-owner" {
				continue
			}
			if omitPhases && isSliceKind(k.Kind) {
				continue
			}
			if omitPhases && isObjectSetKind(k.Kind) && k.Group == PKOGroup {
				o = store.Copy(o)
				if sp, ok := o["spec"].(map[string]any); ok {
					delete(sp, "phases")
				}
			}
			out[cl.Name+" "+k.String()] = projectObject(k, o)
		}
	}
	return out
}

func projectOwners(o store.Obj) []string {
	var out []string
	for _, st := range []string{"native", "annotation"} {
		for _, r := range Owners(o, st) {
			if r.Group == PKOGroup && !r.Controller {
				// which former revisions stay behind as plain owners depends on the
				// order in which revisions (re)adopt an object - legitimately
				// schedule dependent, so not part of the compared end state
				continue
			}
			out = append(out, fmt.Sprintf("%s:%s/%s/ctrl=%v", st, r.Kind, r.Name, r.Controller))
		}
	}
	sort.Strings(out)
	return out
}

func projectObject(k store.Key, o store.Obj) string {
	p := map[string]any{}
	p["owners"] = projectOwners(o)
	p["deleting"] = store.Deleting(o)
	fins := store.Finalizers(o)
	sort.Strings(fins)
	p["finalizers"] = fins
	lbl := store.Labels(o)
	p["labels"] = lbl
	ann := store.Annotations(o)
	delete(ann, annOwners)
	delete(ann, "package-operator.run/collision-count")
	p["annotations"] = ann
	if k.Group != PKOGroup {
		c := store.Copy(o)
		delete(c, "metadata")
		delete(c, "status")
		delete(c, "apiVersion")
		delete(c, "kind")
		p["content"] = c
		b, _ := json.Marshal(p)
		return string(b)
	}
	conds := map[string]string{}
	for _, c := range Conditions(o) {
		conds[c.Type] = c.Status
		if c.Type == "Available" && c.Status == "False" {
			conds[c.Type] = c.Status + "/" + c.Reason
		}
	}
	if isObjectSetKind(store.Str(o, "kind")) && store.Str(o, "spec", "lifecycleState") == "Archived" && conds["Archived"] == "True" {
		// what else an archived revision still carries (InTransition, Paused, Succeeded) is whatever its
		// last status as an active revision happened to say; only Archived is maintained from here on
		conds = map[string]string{"Archived": "True"}
	}
	p["conditions"] = conds
	sp := store.Copy(o)
	spec, _ := sp["spec"].(map[string]any)
	p["spec"] = spec
	st, _ := o["status"].(map[string]any)
	if st != nil {
		ps := map[string]any{}
		for _, f := range []string{"revision", "phase", "unpackedHash", "templateHash"} {
			if v, ok := st[f]; ok {
				ps[f] = v
			}
		}
		var co []string
		for _, c := range controllerOfList(o) {
			co = append(co, c.Group+"/"+c.Kind+"/"+c.Namespace+"/"+c.Name)
		}
		sort.Strings(co)
		ps["controllerOf"] = co
		var rp []string
		if l, ok := st["remotePhases"].([]any); ok {
			for _, x := range l {
				if m, ok := x.(map[string]any); ok {
					rp = append(rp, fmt.Sprint(m["name"]))
				}
			}
		}
		sort.Strings(rp)
		ps["remotePhases"] = rp
		p["status"] = ps
	}
	if k.Kind == "ObjectSlice" || k.Kind == "ClusterObjectSlice" {
		p["objects"] = o["objects"]
	}
	b, _ := json.Marshal(p)
	return string(b)
}

// DiffProjection returns a short description of the first differences.
func DiffProjection(ref, got map[string]string) []string {
	var out []string
	keys := map[string]bool{}
	for k := range ref {
		keys[k] = true
	}
	for k := range got {
		keys[k] = true
	}
	ks := make([]string, 0, len(keys))
	for k := range keys {
		ks = append(ks, k)
	}
	sort.Strings(ks)
	for _, k := range ks {
		r, okr := ref[k]
		g, okg := got[k]
		switch {
		case !okr:
			out = append(out, "extra "+k+": "+clip(g))
		case !okg:
			out = append(out, "missing "+k+" (reference: "+clip(r)+")")
		case r != g:
			out = append(out, "differs "+k+": reference "+clip(r)+" got "+clip(g))
		}
	}
	return out
}

func clip(s string) string {
	if len(s) > 700 {
		return s[:700] + "…"
	}
	return s
}

func diffKind(d string) string {
	// "differs mgmt group/Kind/ns/name: ..." -> "differs Kind"
	f := strings.Fields(d)
	if len(f) < 3 {
		return d
	}
	parts := strings.Split(strings.TrimSuffix(f[2], ":"), "/")
	if len(parts) >= 2 {
		return f[0] + " " + parts[1]
	}
	return f[0]
}
