package cs

import (
	"strings"

	"package-operator.run/internal/packages/verifsim/store"
)

// Monitor observes a run and reports violations of one property.
type Monitor interface {
	ID() string
	OnReq(w *World, r *Req)
	OnPassEnd(w *World, p *Pass)
	OnStep(w *World)
	OnQuiescent(w *World, epoch int)
	OnEnd(w *World)
	// Exercised reports whether this run exercised the monitor non-trivially.
	Exercised() bool
}

type BaseMon struct{ exercised bool }

func (b *BaseMon) OnReq(*World, *Req)      {}
func (b *BaseMon) OnPassEnd(*World, *Pass) {}
func (b *BaseMon) OnStep(*World)           {}
func (b *BaseMon) OnQuiescent(*World, int) {}
func (b *BaseMon) OnEnd(*World)            {}
func (b *BaseMon) Exercised() bool         { return b.exercised }
func (b *BaseMon) touch()                  { b.exercised = true }

// ---- shared helpers for monitors ---------------------------------------------------

// isPKOActor reports whether a request was issued by a PKO process.
func isPKOActor(r *Req) bool { return r.Pass != nil }

// ownerOfPass returns the owner object (ObjectSet, ObjectSetPhase, ...) as the
// pass read it at its start (first get of its own key), or nil.
func ownerOfPass(p *Pass) store.Obj {
	if v, ok := p.Notes["owner"]; ok {
		o, _ := v.(store.Obj)
		return o
	}
	for _, r := range p.Reqs {
		if r.Verb == "get" && r.GVK.Kind == p.Ctrl && r.Name == p.Key.Name && r.NS == p.Key.Namespace {
			if r.Err == nil {
				p.Notes["owner"] = r.Returned
				return r.Returned
			}
			break
		}
	}
	p.Notes["owner"] = store.Obj(nil)
	return nil
}

// strategyOf returns the owner strategy a process/controller uses.
func strategyOf(p *Pass) string {
	if p.Proc == "remote-phase-manager" {
		return "annotation"
	}
	return "native"
}

// targetCluster is the cluster a controller writes managed objects to.
func targetCluster(p *Pass) string {
	if p.Proc == "remote-phase-manager" {
		return "hosted"
	}
	return "mgmt"
}

func isObjectSetKind(kind string) bool { return kind == "ObjectSet" || kind == "ClusterObjectSet" }
func isPhaseKind(kind string) bool {
	return kind == "ObjectSetPhase" || kind == "ClusterObjectSetPhase"
}
func isPKOKind(gvkGroup string) bool { return gvkGroup == PKOGroup }

// sliceLookup returns a slice lookup on the store head of mgmt.
func (w *World) sliceLookup(owner store.Obj) func(string) store.Obj {
	return w.sliceLookupOpt(owner, false)
}

// sliceLookupWithHistory also resolves slices that were deleted since: a deleted slice
// still says what the revision referencing it lists (used where the question is what a
// revision "contains", not what PKO can still know about it).
func (w *World) sliceLookupWithHistory(owner store.Obj) func(string) store.Obj {
	return w.sliceLookupOpt(owner, true)
}

func (w *World) sliceLookupOpt(owner store.Obj, history bool) func(string) store.Obj {
	kind := "ObjectSlice"
	if isClusterScopedOwner(store.Str(owner, "kind")) {
		kind = "ClusterObjectSlice"
	}
	ns := store.Str(owner, "metadata", "namespace")
	return func(name string) store.Obj {
		key := store.Key{Group: PKOGroup, Kind: kind, Namespace: ns, Name: name}
		if o, ok := w.Mgmt.Objs[key]; ok {
			return o
		}
		if !history {
			return nil
		}
		for i := len(w.Mgmt.Log) - 1; i >= 0; i-- {
			if ev := w.Mgmt.Log[i]; ev.Key == key {
				if ev.After != nil {
					return ev.After
				}
				return ev.Before
			}
		}
		return nil
	}
}

func siteHas(r *Req, s string) bool { return strings.Contains(r.Site, s) }

func shortSite(site string) string {
	if i := strings.LastIndex(site, "/"); i >= 0 {
		return site[i+1:]
	}
	return site
}
