package cs

import (
	"sigs.k8s.io/controller-runtime/pkg/client"
	"sigs.k8s.io/controller-runtime/pkg/handler"

	"package-operator.run/internal/constants"

	"pkg.package-operator.run/boxcutter/ownerhandling"
)

func annotationOwnerHandler(owner client.Object, w *World) handler.EventHandler {
	return ownerhandling.NewAnnotation(Scheme, constants.OwnerStrategyAnnotationKey).EnqueueRequestForOwner(owner, w.Mapper, false)
}
