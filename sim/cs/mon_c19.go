package cs

import (
	"fmt"
	"strings"

	"package-operator.run/internal/packages/verifsim/store"
)

// MonC19: no package content or cluster object state can crash Package Operator.
type MonC19 struct{ BaseMon }

func (m *MonC19) ID() string { return "C19" }

// panicFrame extracts the innermost package-operator (or boxcutter) frame from a panic stack.
func panicFrame(stack string) string {
	lines := strings.Split(stack, "\n")
	seenPanic := false
	for _, l := range lines {
		l = strings.TrimSpace(l)
		if strings.HasPrefix(l, "panic(") {
			seenPanic = true
			continue
		}
		if !seenPanic {
			continue
		}
		if (strings.HasPrefix(l, "package-operator.run/") || strings.HasPrefix(l, "pkg.package-operator.run/")) && !strings.Contains(l, "/verifsim/") {
			if i := strings.Index(l, "("); i > 0 {
				l = l[:i]
			}
			return shortSite(strings.TrimPrefix(l, "package-operator.run/"))
		}
	}
	return "unknown-frame"
}

func (m *MonC19) OnPassEnd(w *World, p *Pass) {
	m.touch()
	if p.Panic == "" {
		return
	}
	first := strings.SplitN(p.Panic, "\n", 2)[0]
	frame := panicFrame(p.Panic)
	if frame == "unknown-frame" {
		// not attributable to package-operator code: harness trouble, not a finding
		w.failed = fmt.Errorf("panic outside package-operator code in pass %d of %s %s: %s", p.ID, p.Ctrl, p.Key, p.Panic)
		return
	}
	w.Report(Violation{Property: "C19", Rule: "panic", Sig: frame, Seq: p.EndSeq,
		Msg: fmt.Sprintf("pass %d of %s %s panicked in %s: %s", p.ID, p.Ctrl, p.Key, frame, first)})
}

// reportPanicOutsidePass is used for panics in PKO code that runs outside a reconcile pass (image import).
func (w *World) reportPanicOutsidePass(where string, rec any, stack string) {
	frame := panicFrame(stack)
	w.Report(Violation{Property: "C19", Rule: "panic", Sig: frame, Msg: fmt.Sprintf("%s panicked in %s: %v", where, frame, rec)})
}

// ---- hostile status shapes -----------------------------------------------------------

var hostileStatuses = []func(gen int64) any{
	func(gen int64) any { return "not-a-map" },
	func(gen int64) any { return map[string]any{"conditions": "not-a-list"} },
	func(gen int64) any { return map[string]any{"conditions": []any{"not-a-map", int64(5)}} },
	func(gen int64) any { return map[string]any{"conditions": []any{map[string]any{}}} },
	func(gen int64) any {
		return map[string]any{"conditions": []any{map[string]any{"type": int64(7), "status": true, "observedGeneration": gen}}}
	},
	func(gen int64) any {
		return map[string]any{"conditions": []any{map[string]any{"type": "Ready", "status": "True", "observedGeneration": gen}}}
	},
	func(gen int64) any {
		return map[string]any{"conditions": []any{map[string]any{"type": "Available", "status": "True", "reason": []any{"x"}, "message": map[string]any{}, "observedGeneration": gen}}}
	},
	func(gen int64) any {
		return map[string]any{"observedGeneration": "nine", "conditions": []any{map[string]any{"type": "Ready", "status": "True", "observedGeneration": "x"}}}
	},
	func(gen int64) any {
		return map[string]any{"observedGeneration": int64(1) << 62, "replicas": "many", "updatedReplicas": []any{}, "phase": map[string]any{"deep": map[string]any{"er": []any{nil}}}}
	},
	func(gen int64) any { return map[string]any{"conditions": []any{nil}} },
	func(gen int64) any { return nil },
}

// HostileAgent writes arbitrary JSON shapes into the status of objects PKO probes,
// maps conditions from, or renders templates from.
type HostileAgent struct {
	Budget int
}

func (a *HostileAgent) Name() string { return "hostile" }

func (a *HostileAgent) Ops(w *World, calm bool) []AgentOp {
	if calm || a.Budget <= 0 {
		return nil
	}
	return []AgentOp{{Label: "odd data", Weight: 1, Do: func(w *World) {
		// source objects whose data has a legal but unusual shape: empty, absent, nested, non-string
		a.Budget--
		cl := w.Mgmt
		var cands []store.Key
		for _, k := range sortedKeys(cl.Objs) {
			if k.Group == "" && (k.Kind == "ConfigMap" || k.Kind == "Secret") {
				cands = append(cands, k)
			}
		}
		if len(cands) == 0 {
			return
		}
		k := cands[w.Sch.Intn(len(cands), "hostile-data-target")]
		shape := w.Sch.Intn(5, "hostile-data-shape")
		w.Stats.Probe("hostile-data")
		w.Tracef("HOSTILE data shape %d on %s", shape, k)
		_, _ = w.TP("hostile", cl).Mutate(k, func(o store.Obj) {
			switch shape {
			case 0:
				o["data"] = map[string]any{}
			case 1:
				delete(o, "data")
			case 2:
				o["data"] = map[string]any{"k": map[string]any{"deeper": []any{}}}
			case 3:
				o["data"] = map[string]any{"list": []any{}}
			case 4:
				o["data"] = []any{}
			}
		})
	}}, {Label: "corrupt status", Weight: 3, Do: func(w *World) {
		a.Budget--
		cl := w.Mgmt
		var cands []store.Key
		for _, k := range sortedKeys(cl.Objs) {
			if k.Group == PKOGroup || k.Kind == "Namespace" {
				continue
			}
			cands = append(cands, k)
		}
		if len(cands) == 0 {
			return
		}
		k := cands[w.Sch.Intn(len(cands), "hostile-target")]
		shape := hostileStatuses[w.Sch.Intn(len(hostileStatuses), "hostile-shape")]
		gen := store.Int(cl.Objs[k], "metadata", "generation")
		w.Stats.Probe("hostile-status")
		w.Tracef("HOSTILE status on %s", k)
		_, _ = w.TP("hostile", cl).Mutate(k, func(o store.Obj) {
			st := shape(gen)
			if st == nil {
				delete(o, "status")
			} else {
				o["status"] = st
			}
		})
	}}}
}
