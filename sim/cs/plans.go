package cs

import (
	"os"

	"package-operator.run/internal/packages/verifsim/store"
)

// AllMonitors returns a fresh instance of every monitor; a check reports only
// its own property's violations, the others are listed as incidental.
func AllMonitors() []Monitor {
	return []Monitor{
		&MonC01{},
		&MonC02{},
		&MonC03{},
		&MonC04{},
		&MonC05{},
		&MonC06{},
		&MonC07{},
		&MonC08{},
		&MonC09{},
		&MonC10{},
		&MonC11{},
		&MonC14{},
		&MonC15{},
		&MonC16{},
		&MonC18{},
		&MonC19{},
	}
}

func init() {
	Plans["C01"] = planC01
	Plans["C02"] = planC02
	Plans["C03"] = planC03
	Plans["C04"] = planC04
	Plans["C05"] = planC05
	Plans["C06"] = planC06
	Plans["C07"] = planC07
	Plans["C08"] = planC08
	Plans["C09"] = planC09
	Plans["C11"] = planC11
}

func (w *World) setupCommon(hostedChance int) {
	s := w.Scn
	w.Cfg.Granular = s.Bool("granular")
	if hostedChance > 0 && s.Chance(1, hostedChance, "hosted") {
		w.Cfg.Hosted = true
		w.EnableHosted()
	}
	w.Monitors = AllMonitors()
}

func planC03(w *World, spec RunSpec) {
	s := w.Scn
	w.setupCommon(4)
	w.drawFaultMix("err-before", "lost-response", "crash", "compaction", "duplicate")
	w.Cfg.Faults["drift"] = !w.Cfg.FaultFree
	w.Cfg.Ndist = 40 + s.Intn(260, "ndist")
	w.Scenario = GenOS(w, OSProfile{MaxSets: 2, Delegation: true, NeverReady: true, LateCreate: true, Lifecycle: s.Chance(1, 2, "lifecycle-ops"), EmptyProbeEntry: true})
	w.StartProcesses()
	w.Disturb(w.Cfg.Ndist)
	w.finish()
}

// withForceAdoption draws the self-bootstrap forced-adoption mode for this run.
func (w *World) withForceAdoption(chance int) func() {
	if w.Scn.Chance(1, chance, "force-adoption") {
		w.Cfg.ForceAdoption = true
		os.Setenv("PKO_FORCE_ADOPTION", "true")
		return func() { os.Unsetenv("PKO_FORCE_ADOPTION") }
	}
	os.Unsetenv("PKO_FORCE_ADOPTION")
	return func() {}
}

func planC01(w *World, spec RunSpec) {
	s := w.Scn
	w.setupCommon(4)
	defer w.withForceAdoption(6)()
	w.drawFaultMix("err-before", "lost-response", "crash", "compaction", "duplicate")
	w.Cfg.Faults["drift"] = true
	w.Cfg.Ndist = 60 + s.Intn(300, "ndist")
	w.Scenario = GenOS(w, OSProfile{MaxSets: 3, Delegation: true, Preexisting: 5, Intruder: "boundary", LateCreate: true, PhaseObjectDrift: s.Bool("phase-object-drift")})
	w.StartProcesses()
	w.Disturb(w.Cfg.Ndist)
	if w.Settle(w.Cfg.CalmBudget) && !w.stopNow {
		// a resync round at quiescence: refusals that still stand afterwards were taken on a caught-up cache
		if _, ok := w.probePasses(w.Cfg.CalmBudget); ok {
			w.resynced = true
		}
	}
	w.finish()
}

func planC02(w *World, spec RunSpec) {
	s := w.Scn
	w.setupCommon(4)
	w.drawFaultMix("err-before", "lost-response", "crash", "compaction", "duplicate")
	w.Cfg.Ndist = 80 + s.Intn(400, "ndist")
	w.Scenario = GenOS(w, OSProfile{MaxSets: 3, Delegation: true, Lifecycle: true, LateCreate: true, StampedManifests: true})
	w.StartProcesses()
	w.Disturb(w.Cfg.Ndist)
	w.finish()
}

func planC04(w *World, spec RunSpec) {
	s := w.Scn
	w.setupCommon(4)
	w.drawFaultMix("err-before", "lost-response", "crash", "compaction", "duplicate")
	w.Cfg.Faults["drift"] = true
	w.Cfg.Ndist = 80 + s.Intn(400, "ndist")
	w.Scenario = GenOS(w, OSProfile{MaxSets: 3, Delegation: true, Lifecycle: true, LateCreate: true, Intruder: "granular", Finalizers: true, NoForge: true, Recreate: true})
	ensureTeardownOp(w)
	w.StartProcesses()
	w.Disturb(w.Cfg.Ndist)
	w.finish()
}

func planC05(w *World, spec RunSpec) {
	s := w.Scn
	w.setupCommon(4)
	w.Cfg.Granular = !s.Chance(1, 4, "pass-atomic")
	w.drawFaultMix("err-before", "lost-response", "crash", "compaction", "duplicate")
	w.Cfg.Faults["drift"] = true
	w.Cfg.Ndist = 80 + s.Intn(400, "ndist")
	w.Scenario = GenOS(w, OSProfile{MaxSets: 3, Delegation: true, Lifecycle: true, LateCreate: true, Intruder: "granular", Finalizers: true, Preexisting: 2, PhaseObjectDrift: s.Bool("phase-object-drift")})
	ensureTeardownOp(w)
	w.StartProcesses()
	w.Disturb(w.Cfg.Ndist)
	w.finish()
}

// ensureTeardownOp makes sure the scenario contains at least one archive/delete.
func ensureTeardownOp(w *World) {
	sc := w.Scenario
	g := sc.Facts["os"].(*OSGen)
	for _, op := range sc.UserOps {
		if len(op.Label) > 6 && (op.Label[:6] == "delete" || op.Label[:7] == "archive") {
			return
		}
	}
	name := g.Names[w.Scn.Intn(len(g.Names), "teardown-target")]
	key := store.Key{Group: PKOGroup, Kind: g.Kind, Namespace: g.NS, Name: name}
	switch w.Scn.Intn(3, "teardown-kind") {
	case 0:
		sc.UserOps = append(sc.UserOps, UserOp{Label: "delete " + name, Do: func(w *World) { _ = w.TP("user", w.Mgmt).Delete(key, "Background") }})
	case 1:
		sc.UserOps = append(sc.UserOps, UserOp{Label: "archive " + name, Do: func(w *World) { setLifecycle(w, key, "Archived") }})
	case 2:
		sc.UserOps = append(sc.UserOps, UserOp{Label: "delete --cascade=orphan " + name, Do: func(w *World) { _ = w.TP("user", w.Mgmt).Delete(key, "Orphan") }})
	}
}

func planC06(w *World, spec RunSpec) {
	s := w.Scn
	w.setupCommon(4)
	w.drawFaultMix("err-before", "lost-response", "crash", "compaction", "duplicate")
	w.Cfg.Faults["drift"] = true
	w.Cfg.Ndist = 80 + s.Intn(400, "ndist")
	sl := 0
	if s.Chance(1, 3, "sliced") {
		sl = 1
	}
	w.Scenario = GenOS(w, OSProfile{MaxSets: 3, Delegation: true, Lifecycle: true, LateCreate: true, NeverReady: s.Bool("never-ready"), Sliced: sl, Intruder: "granular", DriftOnly: true, SliceDrift: sl == 1})
	w.StartProcesses()
	w.Disturb(w.Cfg.Ndist)
	w.finish()
}

func planC07(w *World, spec RunSpec) {
	s := w.Scn
	w.setupCommon(6)
	w.Cfg.Granular = s.Chance(2, 3, "granular")
	w.drawFaultMix("err-before", "lost-response", "crash", "compaction", "duplicate")
	w.Cfg.Ndist = 100 + s.Intn(500, "ndist")
	w.Scenario = GenOD(w, ODProfile{MaxEdits: 5, Pause: true, EmptyStart: true, Limits: true, NeverReady: s.Bool("never-ready"), Namesake: true})
	w.StartProcesses()
	w.Disturb(w.Cfg.Ndist)
	w.finish()
}

func planC08(w *World, spec RunSpec) {
	s := w.Scn
	w.setupCommon(6)
	w.drawFaultMix("err-before", "lost-response", "crash", "compaction", "duplicate")
	w.Cfg.Faults["drift"] = true
	w.Cfg.Ndist = 150 + s.Intn(600, "ndist")
	sliced := s.Chance(1, 3, "sliced")
	w.Scenario = GenOD(w, ODProfile{MaxEdits: 5, Limits: true, NeverReady: !s.Chance(1, 4, "all-ready"), Delegation: s.Chance(1, 4, "delegation"), FinalDelete: true, Slices: sliced, SliceDrift: sliced && s.Bool("slice-drift"), Pause: s.Chance(1, 3, "pause-ops"), Namesake: true})
	w.StartProcesses()
	w.Disturb(w.Cfg.Ndist)
	w.finish()
}

func planC09(w *World, spec RunSpec) {
	s := w.Scn
	w.setupCommon(4)
	w.drawFaultMix("err-before", "lost-response", "crash", "compaction", "duplicate")
	w.Cfg.Faults["drift"] = true
	w.Cfg.Ndist = 100 + s.Intn(500, "ndist")
	if spec.Index%4 == 3 {
		// Package -> ObjectDeployment -> revisions pause propagation
		w.Cfg.Packages = true
		w.Cfg.Faults["pull-error"] = !w.Cfg.FaultFree
		w.Scenario = GenPKG(w, 5)
	} else if s.Bool("family-od") {
		w.Scenario = GenOD(w, ODProfile{MaxEdits: 6, Pause: true, Limits: true, NeverReady: s.Bool("never-ready"), Delegation: s.Bool("delegation")})
	} else {
		w.Scenario = GenOS(w, OSProfile{MaxSets: 3, Delegation: true, Lifecycle: true, LateCreate: true, Intruder: "granular", NoForge: true, Preexisting: 2, RecreateOrphaned: true})
		ensurePauseOp(w)
	}
	w.StartProcesses()
	w.Disturb(w.Cfg.Ndist)
	w.finish()
}

func ensurePauseOp(w *World) {
	sc := w.Scenario
	g := sc.Facts["os"].(*OSGen)
	for _, op := range sc.UserOps {
		if len(op.Label) > 5 && op.Label[:5] == "pause" {
			return
		}
	}
	name := g.Names[w.Scn.Intn(len(g.Names), "pause-target")]
	key := store.Key{Group: PKOGroup, Kind: g.Kind, Namespace: g.NS, Name: name}
	op := UserOp{Label: "pause " + name, Do: func(w *World) { setLifecycle(w, key, "Paused") }}
	at := w.Scn.Intn(len(sc.UserOps)+1, "pause-at")
	sc.UserOps = append(sc.UserOps[:at], append([]UserOp{op}, sc.UserOps[at:]...)...)
}

func planC11(w *World, spec RunSpec) {
	s := w.Scn
	w.setupCommon(0)
	w.drawFaultMix("err-before", "lost-response", "crash", "compaction", "duplicate")
	w.Cfg.Ndist = 60 + s.Intn(300, "ndist")
	if spec.Index%3 == 2 {
		// ObjectTemplates: sources/targets outside the template's namespace
		w.Cfg.Templates = true
		w.Scenario = GenOT(w, 4)
	} else {
		w.Scenario = GenOS(w, OSProfile{MaxSets: 2, Delegation: true, Lifecycle: true, LateCreate: true, Violations: true, AdmissionFlip: true})
	}
	w.StartProcesses()
	w.Disturb(w.Cfg.Ndist)
	w.finish()
}

func planPkgSmoke(w *World, spec RunSpec) {
	s := w.Scn
	w.setupCommon(0)
	w.Cfg.Packages = true
	w.drawFaultMix("err-before", "lost-response", "crash", "compaction", "duplicate", "pull-error")
	w.Cfg.Ndist = 100 + s.Intn(400, "ndist")
	w.Scenario = GenPKG(w, 4)
	w.StartProcesses()
	w.Disturb(w.Cfg.Ndist)
	w.finish()
}

func init() { Plans["PKG"] = planPkgSmoke; Plans["C16"] = planPkgSmoke }

func planC18(w *World, spec RunSpec) {
	s := w.Scn
	w.setupCommon(0)
	w.Cfg.Templates = true
	w.drawFaultMix("err-before", "lost-response", "crash", "compaction", "duplicate", "informer-start")
	w.Cfg.Ndist = 60 + s.Intn(300, "ndist")
	w.Scenario = GenOT(w, 5)
	w.StartProcesses()
	w.Disturb(w.Cfg.Ndist)
	w.finish()
}

func init() { Plans["C18"] = planC18 }

// planC19 drives hostile inputs the simulated environment can deliver:
// malformed status shapes, odd ObjectTemplate specs, malformed package contents
// and torn OCI streams.
func planC19(w *World, spec RunSpec) {
	s := w.Scn
	w.setupCommon(0)
	w.drawFaultMix("err-before", "lost-response", "crash", "duplicate")
	w.Cfg.Ndist = 80 + s.Intn(300, "ndist")
	switch spec.Index % 4 {
	case 3:
		w.Scenario = GenOD(w, ODProfile{MaxEdits: 5, Pause: true, HostileLimits: true, EmptyStart: true, NeverReady: s.Bool("never-ready")})
	case 0:
		w.Scenario = GenOS(w, OSProfile{MaxSets: 2, Delegation: true, Lifecycle: true, CondMappings: true, LateCreate: true})
	case 1:
		w.Cfg.Templates = true
		w.Scenario = GenOT(w, 5, "hostile")
	case 2:
		w.Cfg.Packages = true
		w.Scenario = GenPKG(w, 4, "hostile", "final-delete", "recreate", "squatter")
	}
	w.AddAgent(&HostileAgent{Budget: 2 + s.Intn(10, "hostile-budget")})
	w.StartProcesses()
	w.Disturb(w.Cfg.Ndist)
	w.Settle(w.Cfg.CalmBudget)
	for _, m := range w.Monitors {
		m.OnEnd(w)
	}
}

func init() { Plans["C19"] = planC19 }
