package cs

// AllMonitors returns a fresh instance of every monitor; a check reports only
// its own property's violations, the others are listed as incidental.
func AllMonitors() []Monitor {
	return []Monitor{
		&MonC03{},
	}
}

func init() {
	Plans["C03"] = planC03
}

func (w *World) setupCommon(hostedChance int) {
	s := w.Scn
	w.Cfg.Granular = s.Bool("granular")
	if hostedChance > 0 && s.Chance(1, hostedChance, "hosted") {
		w.Cfg.Hosted = true
		w.EnableHosted()
	}
	w.Monitors = AllMonitors()
}

func planC03(w *World, spec RunSpec) {
	s := w.Scn
	w.setupCommon(4)
	w.drawFaultMix("err-before", "lost-response", "crash", "compaction", "duplicate")
	w.Cfg.Faults["drift"] = !w.Cfg.FaultFree
	w.Cfg.Ndist = 40 + s.Intn(260, "ndist")
	w.Scenario = GenOS(w, OSProfile{MaxSets: 2, Delegation: true, NeverReady: true, LateCreate: true})
	w.StartProcesses()
	w.Disturb(w.Cfg.Ndist)
	w.finish()
}
