package cs

import (
	"fmt"

	"package-operator.run/internal/packages/verifsim/store"
)

// MonC02: handover only moves objects forward between revisions.
type MonC02 struct{ BaseMon }

func (m *MonC02) ID() string { return "C02" }

func staleTag(p *Pass, r *Req) string {
	obs, seen := p.LastSeen(r.Cluster, r.Key(), r.Seq)
	if !seen || obs == nil || r.Before == nil {
		return "fresh"
	}
	if store.Str(obs, "metadata", "resourceVersion") != store.Str(r.Before, "metadata", "resourceVersion") {
		return "stale-read"
	}
	return "fresh"
}

func (m *MonC02) OnReq(w *World, r *Req) {
	if r.Pass == nil || !r.IsWrite() || r.DryRun || !r.Applied || !r.Changed {
		return
	}
	p := r.Pass
	// revision-fixed: status.revision of an ObjectSet never changes once set
	if isObjectSetKind(r.GVK.Kind) && r.GVK.Group == PKOGroup {
		b, a := store.Int(r.Before, "status", "revision"), store.Int(r.After, "status", "revision")
		if r.Before != nil && r.After != nil && b != 0 && a != b {
			w.Report(Violation{Property: "C02", Rule: "revision-fixed", Sig: shortSite(r.Site), Seq: r.Seq,
				Msg: fmt.Sprintf("%s changed status.revision of %s from %d to %d", r.Actor, r.Key(), b, a)})
		}
		return
	}
	if r.GVK.Group == PKOGroup || r.Before == nil || r.After == nil {
		return
	}
	if !isObjectSetKind(p.Ctrl) && !isPhaseKind(p.Ctrl) {
		return
	}
	strategy := strategyOf(p)
	owner := ownerOfPass(p)
	if owner == nil {
		return
	}
	// controller-moved: a write may make the writing owner the controller (adoption) or release
	// control; it never hands the object to somebody else
	{
		was := map[string]bool{}
		for _, c := range Controllers(r.Before, strategy) {
			was[c.UID] = true
		}
		for _, c := range Controllers(r.After, strategy) {
			if was[c.UID] || c.Is(owner) {
				continue
			}
			m.touch()
			w.Report(Violation{Property: "C02", Rule: "controller-moved", Sig: shortSite(r.Site) + "/" + staleTag(p, r), Seq: r.Seq,
				Msg: fmt.Sprintf("pass %d of %s %s wrote %s and thereby made %s/%s its controller (controllers before: %v); only the adopting revision may become controller", p.ID, p.Ctrl, p.Key, r.Key(), c.Kind, c.Name, Controllers(r.Before, strategy))})
			return
		}
	}
	// revision-stamp: what an owner applies carries the owner's own revision number
	if r.Patch == "apply" && r.Succeeded() && IsControlledBy(r.After, owner, strategy) {
		if stamped, ok := RecordedRevision(r.After); ok {
			if rev := ownerRevision(p, owner); rev != 0 && stamped != rev {
				m.touch()
				w.Report(Violation{Property: "C02", Rule: "revision-stamp", Sig: shortSite(r.Site), Seq: r.Seq,
					Msg: fmt.Sprintf("pass %d of %s %s (revision %d) applied %s and recorded revision %d on it", p.ID, p.Ctrl, p.Key, rev, r.Key(), stamped)})
				return
			}
		}
	}
	rb, okb := RecordedRevision(r.Before)
	ra, oka := RecordedRevision(r.After)
	if okb && oka && ra < rb {
		m.touch()
		if staleTag(p, r) == "stale-read" {
			w.Taint[r.Cluster+"|"+r.Key().String()] = "after-stale-takeover"
		}
		w.Report(Violation{Property: "C02", Rule: "revision-lowered", Sig: shortSite(r.Site) + "/" + staleTag(p, r), Seq: r.Seq,
			Msg: fmt.Sprintf("pass %d of %s %s lowered the recorded revision of %s from %d to %d (%s)", p.ID, p.Ctrl, p.Key, r.Key(), rb, ra, staleTag(p, r))})
		return
	}
	ctrlA := Controllers(r.After, strategy)
	if len(ctrlA) > 1 {
		m.touch()
		w.Report(Violation{Property: "C02", Rule: "two-controllers", Sig: shortSite(r.Site) + "/" + staleTag(p, r), Seq: r.Seq,
			Msg: fmt.Sprintf("after %s by pass %d of %s %s, %s has %d controllers: %v", r.Verb, p.ID, p.Ctrl, p.Key, r.Key(), len(ctrlA), ctrlA)})
		return
	}
	took := IsControlledBy(r.After, owner, strategy) && !IsControlledBy(r.Before, owner, strategy)
	if !took {
		return
	}
	m.touch()
	rev := ownerRevision(p, owner)
	// the revision the pass observed when it decided to adopt
	obs, seen := p.LastSeen(r.Cluster, r.Key(), r.Seq)
	if seen && obs != nil {
		if or, ok := RecordedRevision(obs); ok && rev != 0 && or > rev {
			w.Report(Violation{Property: "C02", Rule: "adopted-newer", Sig: shortSite(r.Site), Seq: r.Seq,
				Msg: fmt.Sprintf("pass %d of %s %s (revision %d) took control of %s which it observed at revision %d", p.ID, p.Ctrl, p.Key, rev, r.Key(), or)})
			return
		}
	}
	if okb && rev != 0 && rb > rev {
		w.Stats.Probe("c02-took-newer-in-store/" + staleTag(p, r))
		w.Report(Violation{Property: "C02", Rule: "adopted-newer", Sig: shortSite(r.Site) + "/store/" + staleTag(p, r), Seq: r.Seq,
			Msg: fmt.Sprintf("pass %d of %s %s (revision %d) took control of %s whose stored revision was %d (%s)", p.ID, p.Ctrl, p.Key, rev, r.Key(), rb, staleTag(p, r))})
		return
	}
	if len(ctrlA) != 1 {
		w.Report(Violation{Property: "C02", Rule: "two-controllers", Sig: "handover/" + shortSite(r.Site), Seq: r.Seq,
			Msg: fmt.Sprintf("after handover of %s to %s the controllers are %v", r.Key(), p.Key, ctrlA)})
		return
	}
	if strategy == "native" {
		// plain PKO owners (former controllers waiting for their own teardown) survive the writes of others
		for _, o := range Owners(r.Before, strategy) {
			if o.Group != PKOGroup || o.Controller || o.Is(owner) {
				continue
			}
			still := false
			for _, a := range Owners(r.After, strategy) {
				if a.UID == o.UID {
					still = true
				}
			}
			if !still {
				if ow, ok := w.Cluster(r.Cluster).Objs[store.Key{Group: o.Group, Kind: o.Kind, Namespace: store.Str(owner, "metadata", "namespace"), Name: o.Name}]; ok && store.Str(ow, "metadata", "uid") == o.UID {
					m.touch()
					w.Report(Violation{Property: "C02", Rule: "owners-kept", Sig: "plain-owner-dropped/" + shortSite(r.Site) + "/" + staleTag(p, r), Seq: r.Seq,
						Msg: fmt.Sprintf("pass %d of %s %s wrote %s and dropped the plain owner %s/%s, which still exists and has not torn the object down itself: owners before %v, after %v", p.ID, p.Ctrl, p.Key, r.Key(), o.Kind, o.Name, Owners(r.Before, strategy), Owners(r.After, strategy))})
					return
				}
			}
		}
		// former PKO controllers stay as plain owners
		for _, c := range Controllers(r.Before, strategy) {
			if c.Group != PKOGroup {
				continue
			}
			kept := false
			for _, o := range Owners(r.After, strategy) {
				if o.UID == c.UID && o.Name == c.Name && o.Kind == c.Kind {
					kept = !o.Controller
				}
			}
			if !kept {
				if staleTag(p, r) == "stale-read" {
					w.Taint[r.Cluster+"|"+r.Key().String()] = "after-stale-takeover"
				}
				w.Report(Violation{Property: "C02", Rule: "owners-kept", Sig: shortSite(r.Site) + "/" + staleTag(p, r), Seq: r.Seq,
					Msg: fmt.Sprintf("handover of %s to %s dropped or kept as controller the former controller %s/%s: owners now %v", r.Key(), p.Key, c.Kind, c.Name, Owners(r.After, strategy))})
				return
			}
		}
	}
}
