package cs

import (
	"fmt"

	"package-operator.run/internal/packages/verifsim/store"
)

const annPausedByParent = "package-operator.run/paused-by-parent"

// MonC09: paused means hands-off.
type MonC09 struct {
	BaseMon
	// pausedBy remembers who moved a revision into Paused: "parent" (a pass of its paused
	// deployment), "archive" (a pass of its unpaused deployment: pause before archival), "other".
	pausedBy map[store.Key]string
}

func (m *MonC09) ID() string { return "C09" }

func (m *MonC09) OnReq(w *World, r *Req) {
	p := r.Pass
	if !r.DryRun && r.IsWrite() && r.Succeeded() && isObjectSetKind(r.GVK.Kind) && r.GVK.Group == PKOGroup && r.After != nil &&
		store.Str(r.After, "spec", "lifecycleState") == "Paused" && (r.Before == nil || store.Str(r.Before, "spec", "lifecycleState") != "Paused") {
		if m.pausedBy == nil {
			m.pausedBy = map[store.Key]string{}
		}
		who := "other"
		if p != nil && isODKind(p.Ctrl) {
			who = "archive"
			if o := ownerOfPass(p); o != nil {
				if b, _ := store.Get(o, "spec", "paused").(bool); b {
					who = "parent"
				}
			}
		}
		m.pausedBy[r.Key()] = who
	}
	// a paused deployment that finds a revision already Paused (by the archive step, by somebody
	// else) marks it as paused by itself: from then on the pause is the parent's and it may release it
	if !r.DryRun && r.IsWrite() && r.Succeeded() && isObjectSetKind(r.GVK.Kind) && r.GVK.Group == PKOGroup && r.After != nil && p != nil && isODKind(p.Ctrl) &&
		store.Str(r.After, "spec", "lifecycleState") == "Paused" && store.Annotations(r.After)[annPausedByParent] == "true" {
		if o := ownerOfPass(p); o != nil {
			if b, _ := store.Get(o, "spec", "paused").(bool); b {
				if m.pausedBy == nil {
					m.pausedBy = map[store.Key]string{}
				}
				m.pausedBy[r.Key()] = "parent"
			}
		}
	}
	if p == nil || r.DryRun || !r.IsWrite() {
		return
	}
	owner := ownerOfPass(p)
	if owner == nil {
		return
	}
	if isPkgKind(p.Ctrl) && isODKind(r.GVK.Kind) && r.GVK.Group == PKOGroup && (r.Verb == "create" || r.Verb == "update") && r.Succeeded() {
		// a paused Package never hands an unpaused deployment to the deployment controller
		if b, _ := store.Get(owner, "spec", "paused").(bool); b {
			m.touch()
			if ob, _ := store.Get(r.After, "spec", "paused").(bool); !ob {
				w.Report(Violation{Property: "C09", Rule: "propagation", Sig: "package-writes-unpaused-deployment/" + shortSite(r.Site), Seq: r.Seq,
					Msg: fmt.Sprintf("pass %d of paused %s %s wrote %s with spec.paused unset: the deployment controller is free to create and roll out revisions while the package is paused", p.ID, p.Ctrl, p.Key, r.Key())})
				return
			}
		}
	}
	if isObjectSetKind(p.Ctrl) || isPhaseKind(p.Ctrl) {
		if !isSpecPaused(owner) || isTeardownOwner(owner) {
			return
		}
		m.touch()
		if r.GVK.Group == PKOGroup {
			return // bookkeeping objects (own finalizer/status, slices, phase objects)
		}
		w.Report(Violation{Property: "C09", Rule: "write-while-paused", Sig: shortSite(r.Site) + "/" + r.Verb, Seq: r.Seq,
			Msg: fmt.Sprintf("pass %d of paused %s %s issued %s on %s", p.ID, p.Ctrl, p.Key, r.Verb, r.Key())})
		return
	}
	if isODKind(p.Ctrl) && isObjectSetKind(r.GVK.Kind) && r.Verb == "update" && r.Succeeded() && r.Before != nil {
		// unpause-exact: the deployment releases only revisions it had paused itself
		if store.Str(r.Before, "spec", "lifecycleState") == "Paused" && store.Str(r.After, "spec", "lifecycleState") != "Paused" &&
			store.Str(r.After, "spec", "lifecycleState") != "Archived" {
			m.touch()
			w.Stats.Probe("c09-revision-released")
			if who, known := m.pausedBy[r.Key()]; known && who != "parent" {
				w.Report(Violation{Property: "C09", Rule: "unpause-exact", Sig: "paused-by-" + who + "/" + shortSite(r.Site), Seq: r.Seq,
					Msg: fmt.Sprintf("pass %d of %s %s set revision %s from Paused to %q although it was not the paused deployment that had paused it (paused by: %s)", p.ID, p.Ctrl, p.Key, r.Name, store.Str(r.After, "spec", "lifecycleState"), who)})
				return
			}
			seen, _ := p.LastSeen("mgmt", r.Key(), r.Seq)
			if store.Annotations(r.Before)[annPausedByParent] != "true" && (seen == nil || store.Annotations(seen)[annPausedByParent] != "true") {
				w.Report(Violation{Property: "C09", Rule: "unpause-exact", Sig: "not-paused-by-parent/" + shortSite(r.Site), Seq: r.Seq,
					Msg: fmt.Sprintf("pass %d of %s %s set revision %s from Paused to %q although the deployment had not paused it (no %s annotation)", p.ID, p.Ctrl, p.Key, r.Name, store.Str(r.After, "spec", "lifecycleState"), annPausedByParent)})
				return
			}
		}
	}
	if isODKind(p.Ctrl) && isObjectSetKind(r.GVK.Kind) {
		if b, _ := store.Get(owner, "spec", "paused").(bool); !b {
			return
		}
		m.touch()
		bad := ""
		switch r.Verb {
		case "create":
			bad = "created"
		case "delete":
			bad = "deleted"
		case "update":
			if store.Str(r.Body, "spec", "lifecycleState") == "Archived" {
				bad = "archived"
			}
		}
		if bad != "" {
			w.Report(Violation{Property: "C09", Rule: "od-acts-paused", Sig: bad + "/" + shortSite(r.Site), Seq: r.Seq,
				Msg: fmt.Sprintf("pass %d of paused %s %s %s ObjectSet %s", p.ID, p.Ctrl, p.Key, bad, r.Name)})
		}
	}
}

func (m *MonC09) OnQuiescent(w *World, epoch int) {
	for _, k := range sortedKeys(w.Mgmt.Objs) {
		if k.Group != PKOGroup {
			continue
		}
		o := w.Mgmt.Objs[k]
		if store.Deleting(o) {
			continue
		}
		switch {
		case isObjectSetKind(k.Kind):
			if store.Str(o, "spec", "lifecycleState") != "Paused" {
				continue
			}
			m.touch()
			if store.Int(o, "status", "revision") == 0 {
				continue // never got as far as reconciling phases (waiting for previous revisions)
			}
			missing := false
			for _, ph := range phasesInfo(o, w.sliceLookup(o)) {
				if ph.MissingSlice != "" {
					missing = true
				}
			}
			if missing {
				// a referenced ObjectSlice is gone: every pass fails while loading it, nothing listed
				// in it is known, nothing can be probed or reported (the ObjectSet writes nothing either)
				w.Stats.Probe("c09-paused-with-missing-slice")
				continue
			}
			if !CondTrue(o, "Paused") {
				// cause: a delegated phase object taken over by name (left behind by an orphan-deleted set of the
				// same name) carries no owner reference, so nothing tells the set when the phase has paused
				sig := "paused-condition"
				byName, allPaused := 0, true
				for _, ph := range phasesInfo(o, w.sliceLookup(o)) {
					if ph.Class == "" {
						continue
					}
					pk := store.Key{Group: PKOGroup, Kind: map[bool]string{true: "ClusterObjectSetPhase", false: "ObjectSetPhase"}[k.Kind == "ClusterObjectSet"], Namespace: k.Namespace, Name: k.Name + "-" + ph.Name}
					po, ok := w.Mgmt.Objs[pk]
					if !ok || IsControlledBy(po, o, "native") {
						continue
					}
					byName++
					if b, _ := store.Get(po, "spec", "paused").(bool); !b || !CondTrue(po, "Paused") {
						allPaused = false
					}
				}
				if byName > 0 && allPaused {
					sig += "/phase-object-without-owner-reference-has-paused"
				}
				w.Report(Violation{Property: "C09", Rule: "paused-reporting", Sig: sig, Msg: fmt.Sprintf("at quiescence paused %s does not report Paused=True (conditions %v)", k, Conditions(o))})
				continue
			}
			// Available equals the reference evaluation of the objects (local phases only)
			phases := phasesInfo(o, w.sliceLookup(o))
			local := true
			for _, ph := range phases {
				if ph.Class != "" {
					local = false
				}
			}
			if !local {
				continue
			}
			probes, _ := store.Get(o, "spec", "availabilityProbes").([]any)
			want := true
			for _, ph := range phases {
				for _, so := range ph.Objs {
					obj, ok := w.Mgmt.Objs[w.normKey("mgmt", so.Key)]
					if !ok || !RefProbe(probes, obj) {
						want = false
					}
				}
			}
			c := FindCond(o, "Available")
			if c == nil || (c.Status == "True") != want {
				if c != nil && (c.Reason == "PreflightError" || c.Reason == "CollisionDetected") {
					continue
				}
				// objects without the cache label are invisible to a paused set; skip those cases
				visible := true
				for _, ph := range phases {
					for _, so := range ph.Objs {
						if obj, ok := w.Mgmt.Objs[w.normKey("mgmt", so.Key)]; !ok || store.Labels(obj)[lblCache] != "True" || !IsOwnedBy(obj, o, "native") {
							// not in the dynamic cache, or not owned by the paused set: no event ever
							// reaches the set, so its last report may legitimately predate the object
							visible = false
						}
					}
				}
				if !visible {
					continue
				}
				w.Report(Violation{Property: "C09", Rule: "paused-reporting", Sig: "available-condition", Msg: fmt.Sprintf("at quiescence paused %s reports Available=%v but the reference evaluation of its objects is %v", k, c, want)})
			}
		case isPkgKind(k.Kind):
			if b, _ := store.Get(o, "spec", "paused").(bool); !b {
				continue
			}
			odKind := "ObjectDeployment"
			if k.Kind == "ClusterPackage" {
				odKind = "ClusterObjectDeployment"
			}
			if od, ok := w.Mgmt.Objs[store.Key{Group: PKOGroup, Kind: odKind, Namespace: k.Namespace, Name: k.Name}]; ok && IsControlledBy(od, o, "native") {
				m.touch()
				if b, _ := store.Get(od, "spec", "paused").(bool); !b {
					w.Report(Violation{Property: "C09", Rule: "propagation", Sig: "deployment-not-paused", Msg: fmt.Sprintf("at quiescence paused %s has an unpaused ObjectDeployment", k)})
				}
			}
		case isODKind(k.Kind):
			if b, _ := store.Get(o, "spec", "paused").(bool); !b {
				// unpaused deployment: every revision it had paused is released again
				if !store.Deleting(o) {
					for _, s := range setsOfDeployment(w.Mgmt.Objs, o) {
						if store.Str(s, "spec", "lifecycleState") == "Paused" && store.Annotations(s)[annPausedByParent] == "true" && !store.Deleting(s) {
							m.touch()
							w.Report(Violation{Property: "C09", Rule: "propagation", Sig: "revision-not-released", Msg: fmt.Sprintf("at quiescence unpaused %s still has revision %s paused by the deployment (%s annotation present)", k, store.Str(s, "metadata", "name"), annPausedByParent)})
						}
					}
				}
				continue
			}
			m.touch()
			for _, s := range setsOfDeployment(w.Mgmt.Objs, o) {
				ls := store.Str(s, "spec", "lifecycleState")
				if ls != "Archived" && ls != "Paused" && !store.Deleting(s) {
					w.Report(Violation{Property: "C09", Rule: "propagation", Sig: "revision-not-paused", Msg: fmt.Sprintf("at quiescence paused %s has active revision %s (lifecycleState=%s)", k, store.Str(s, "metadata", "name"), ls)})
				}
			}
		}
	}
}
