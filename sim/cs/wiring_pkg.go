package cs

import (
	"archive/tar"
	"bytes"
	"context"
	"fmt"
	"runtime/debug"
	"sort"

	"github.com/google/go-containerregistry/pkg/v1/empty"
	"github.com/google/go-containerregistry/pkg/v1/mutate"
	"github.com/google/go-containerregistry/pkg/v1/static"
	ocitypes "github.com/google/go-containerregistry/pkg/v1/types"

	"k8s.io/apimachinery/pkg/types"
	"sigs.k8s.io/controller-runtime/pkg/handler"

	corev1alpha1 "package-operator.run/apis/core/v1alpha1"
	"package-operator.run/internal/apis/manifests"
	controllerspackages "package-operator.run/internal/controllers/packages"
	"package-operator.run/internal/packages"
)

// buildPackageControllers wires the (Cluster)Package controllers with the real
// RequestManager whose registry pull function is scripted.
func buildPackageControllers(p *Process, mgr, unc *Client) {
	w := p.w
	cl := w.Mgmt
	rm := packages.NewRequestManager(nil, nil, unc, types.NamespacedName{Namespace: "package-operator-system", Name: "package-operator"})
	rm.SimSetPull(func(ctx context.Context, image string) (*packages.RawPackage, error) {
		files, err := w.Registry.Pull(ctx, image)
		if err != nil {
			return nil, err
		}
		if img := w.Registry.Images[image]; img != nil && (img.Class == "torn" || img.Class == "torn-late" || img.Class == "empty-image" || img.Class == "corrupt-header") {
			return pullThroughOCI(ctx, w, img, files)
		}
		return &packages.RawPackage{Files: files}, nil
	})
	p.extra["requestManager"] = rm
	env := &manifests.PackageEnvironment{Kubernetes: manifests.PackageEnvironmentKubernetes{Version: "1.27.3"}}
	workers := 3
	{
		rec := controllerspackages.NewPackageController(mgr, unc, discardLog, Scheme, rm, nil, nil, nil)
		rec.SetEnvironment(env)
		c := p.addController("Package", rec, workers)
		c.watch(cl, gk("Package"), &handler.EnqueueRequestForObject{})
		c.watch(cl, gk("ObjectDeployment"), ownsHandler(&corev1alpha1.Package{}, w))
	}
	{
		rec := controllerspackages.NewClusterPackageController(mgr, unc, discardLog, Scheme, rm, nil, nil, nil)
		rec.SetEnvironment(env)
		c := p.addController("ClusterPackage", rec, workers)
		c.watch(cl, gk("ClusterPackage"), &handler.EnqueueRequestForObject{})
		c.watch(cl, gk("ClusterObjectDeployment"), ownsHandler(&corev1alpha1.ClusterPackage{}, w))
	}
}

// pullThroughOCI serves the image through the real OCI import (packages.FromOCI)
// from an in-memory image whose single layer is truncated or empty.
func pullThroughOCI(ctx context.Context, w *World, img *PkgImage, files map[string][]byte) (raw *packages.RawPackage, err error) {
	var buf bytes.Buffer
	tw := tar.NewWriter(&buf)
	names := make([]string, 0, len(files))
	for n := range files {
		names = append(names, n)
	}
	sort.Strings(names)
	if img.Class != "empty-image" {
		for _, n := range names {
			_ = tw.WriteHeader(&tar.Header{Name: "package/" + n, Mode: 0o644, Size: int64(len(files[n]))})
			_, _ = tw.Write(files[n])
		}
	}
	_ = tw.Close()
	b := buf.Bytes()
	switch img.Class {
	case "torn":
		b = b[:len(b)*3/10]
	case "torn-late":
		b = b[:len(b)-1100]
	case "corrupt-header":
		// cut inside the header block of the second entry
		if i := bytes.Index(b[512:], []byte("package/")); i >= 0 {
			b = b[:512+i+200]
		}
	}
	layer := static.NewLayer(b, ocitypes.DockerUncompressedLayer)
	image, aerr := mutate.AppendLayers(empty.Image, layer)
	if aerr != nil {
		return nil, aerr
	}
	w.Stats.Fault("pull-torn")
	defer func() {
		if rec := recover(); rec != nil {
			w.reportPanicOutsidePass("OCI import of image "+img.Ref+" ("+img.Class+")", rec, "panic(\n"+string(debug.Stack()))
			raw, err = nil, fmt.Errorf("import panicked: %v", rec)
		}
	}()
	return packages.FromOCI(ctx, image)
}
