package cs

import (
	"context"

	"k8s.io/apimachinery/pkg/types"
	"sigs.k8s.io/controller-runtime/pkg/handler"

	corev1alpha1 "package-operator.run/apis/core/v1alpha1"
	"package-operator.run/internal/apis/manifests"
	controllerspackages "package-operator.run/internal/controllers/packages"
	"package-operator.run/internal/packages"
)

// buildPackageControllers wires the (Cluster)Package controllers with the real
// RequestManager whose registry pull function is scripted.
func buildPackageControllers(p *Process, mgr, unc *Client) {
	w := p.w
	cl := w.Mgmt
	rm := packages.NewRequestManager(nil, nil, unc, types.NamespacedName{Namespace: "package-operator-system", Name: "package-operator"})
	rm.SimSetPull(func(ctx context.Context, image string) (*packages.RawPackage, error) {
		files, err := w.Registry.Pull(ctx, image)
		if err != nil {
			return nil, err
		}
		return &packages.RawPackage{Files: files}, nil
	})
	p.extra["requestManager"] = rm
	env := &manifests.PackageEnvironment{Kubernetes: manifests.PackageEnvironmentKubernetes{Version: "1.27.3"}}
	workers := 3
	{
		rec := controllerspackages.NewPackageController(mgr, unc, discardLog, Scheme, rm, nil, nil, nil)
		rec.SetEnvironment(env)
		c := p.addController("Package", rec, workers)
		c.watch(cl, gk("Package"), &handler.EnqueueRequestForObject{})
		c.watch(cl, gk("ObjectDeployment"), ownsHandler(&corev1alpha1.Package{}, w))
	}
	{
		rec := controllerspackages.NewClusterPackageController(mgr, unc, discardLog, Scheme, rm, nil, nil, nil)
		rec.SetEnvironment(env)
		c := p.addController("ClusterPackage", rec, workers)
		c.watch(cl, gk("ClusterPackage"), &handler.EnqueueRequestForObject{})
		c.watch(cl, gk("ClusterObjectDeployment"), ownsHandler(&corev1alpha1.ClusterPackage{}, w))
	}
}
