// Package cs is engine E1 "clustersim": real Package Operator controllers run
// against simulated API servers under a seeded scheduler (DESIGN.md §3).
package cs

import (
	"fmt"
	"reflect"
	"sort"
	"time"

	"k8s.io/apimachinery/pkg/api/meta"
	"k8s.io/apimachinery/pkg/runtime"
	"k8s.io/apimachinery/pkg/runtime/schema"
	"k8s.io/apimachinery/pkg/util/validation/field"
	clientgoscheme "k8s.io/client-go/kubernetes/scheme"

	pkoapis "package-operator.run/apis"
	"package-operator.run/internal/packages/verifsim/choice"
	"package-operator.run/internal/packages/verifsim/store"
)

var Scheme = func() *runtime.Scheme {
	s := runtime.NewScheme()
	if err := clientgoscheme.AddToScheme(s); err != nil {
		panic(err)
	}
	if err := pkoapis.AddToScheme(s); err != nil {
		panic(err)
	}
	return s
}()

const (
	PKOGroup = "package-operator.run"
	PKOVer   = "v1alpha1"
)

func pkoGVK(kind string) schema.GroupVersionKind {
	return schema.GroupVersionKind{Group: PKOGroup, Version: PKOVer, Kind: kind}
}

var (
	GVKConfigMap     = schema.GroupVersionKind{Version: "v1", Kind: "ConfigMap"}
	GVKSecret        = schema.GroupVersionKind{Version: "v1", Kind: "Secret"}
	GVKNamespace     = schema.GroupVersionKind{Version: "v1", Kind: "Namespace"}
	GVKDeployment    = schema.GroupVersionKind{Group: "apps", Version: "v1", Kind: "Deployment"}
	GVKClusterRole   = schema.GroupVersionKind{Group: "rbac.authorization.k8s.io", Version: "v1", Kind: "ClusterRole"}
	GVKWidget        = schema.GroupVersionKind{Group: "sim.example", Version: "v1", Kind: "Widget"}
	GVKClusterWidget = schema.GroupVersionKind{Group: "sim.example", Version: "v1", Kind: "ClusterWidget"}
	GVKGhost         = schema.GroupVersionKind{Group: "ghost.example", Version: "v1", Kind: "Ghost"} // never registered
)

type kindDef struct {
	gvk        schema.GroupVersionKind
	namespaced bool
	status     bool
}

var kindTable = []kindDef{
	{GVKConfigMap, true, false},
	{GVKSecret, true, false},
	{GVKNamespace, false, true},
	{GVKDeployment, true, true},
	{GVKClusterRole, false, false},
	{GVKWidget, true, true},
	{GVKClusterWidget, false, true},
	{pkoGVK("ObjectSet"), true, true},
	{pkoGVK("ClusterObjectSet"), false, true},
	{pkoGVK("ObjectSetPhase"), true, true},
	{pkoGVK("ClusterObjectSetPhase"), false, true},
	{pkoGVK("ObjectDeployment"), true, true},
	{pkoGVK("ClusterObjectDeployment"), false, true},
	{pkoGVK("ObjectSlice"), true, false},
	{pkoGVK("ClusterObjectSlice"), false, false},
	{pkoGVK("Package"), true, true},
	{pkoGVK("ClusterPackage"), false, true},
	{pkoGVK("ObjectTemplate"), true, true},
	{pkoGVK("ClusterObjectTemplate"), false, true},
}

// NewRESTMapper builds a RESTMapper from the kind table.
func NewRESTMapper() meta.RESTMapper {
	m := meta.NewDefaultRESTMapper(nil)
	for _, k := range kindTable {
		scope := meta.RESTScopeRoot
		if k.namespaced {
			scope = meta.RESTScopeNamespace
		}
		m.Add(k.gvk, scope)
	}
	return m
}

// Stats are measured counters reported in the evidence.
type Stats struct {
	Steps        int
	Requests     int
	Passes       int
	Faults       map[string]int
	Probes       map[string]int // rare-branch probes ("this condition was hit")
	SimSeconds   float64
	StateHashes  map[uint64]struct{}
	Capped       bool
	Inconclusive bool
}

func (s *Stats) Fault(kind string) { s.Faults[kind]++ }
func (s *Stats) Probe(name string) { s.Probes[name]++ }

// Violation is a monitor finding.
type Violation struct {
	Property string `json:"property"`
	Rule     string `json:"rule"`
	Sig      string `json:"sig"`
	Seq      uint64 `json:"seq"`
	Msg      string `json:"msg"`
}

func (v Violation) Key() string { return v.Property + "/" + v.Rule + "/" + v.Sig }

// KnownSigs holds "property/rule/signature" keys of listed known findings; a
// run does not stop at them (set by the driver from known-findings.jsonl).
var KnownSigs = map[string]bool{}

var relabelForC15 = map[string]bool{"C01": true, "C02": true, "C03": true, "C04": true, "C05": true, "C06": true}

var relabelForC14 = map[string]bool{"C03": true, "C04": true, "C05": true, "C06": true, "C08": true}

// World is one simulated execution.
type World struct {
	Cfg   *Config
	Sch   *choice.Seq // schedule, faults, third-party choices
	Scn   *choice.Seq // scenario generation
	C     *store.Counters
	Mgmt  *store.Cluster
	Host  *store.Cluster // nil unless the scenario uses a hosted cluster
	Procs []*Process

	Mapper meta.RESTMapper

	timers   timerHeap
	timerSeq uint64
	start    time.Time

	Hist   []*Req
	Passes []*Pass
	passID int

	Monitors []Monitor
	Viol     []Violation
	violSeen map[string]bool
	Stats    Stats

	Scenario *Scenario
	agents   []Agent

	sticky        *Actor
	phase         int // phaseDisturbed, phaseCalm
	rr            int // round-robin cursor of the fair scheduler
	trace         []string
	stepNo        int
	failed        error // machinery trouble
	epoch         int
	stopNow       bool
	LogHash       uint64
	envForce      bool
	zombies       []*Actor
	Registry      *Registry
	resynced      bool // the plan ran a resync round at quiescence (every controller reconciled every key once more)
	fairRandom    bool // calm-phase scheduler picks uniformly at random instead of round-robin by class (second reference run)
	sweepCount    int
	sweepTeardown []int             // request indexes (sweep numbering) issued by passes of an owner that is being torn down
	Taint         map[string]string // object key -> cause tag set by a monitor (e.g. stale takeover)
	// Denied: "cluster|key" of objects that admission currently refuses to let the operator create or
	// change (a policy that came into force, a permission that was withdrawn); set by user operations
	Denied map[string]bool
	// DenyFlips: history sequence numbers at which Denied changed
	DenyFlips []uint64
	extra     map[string]any
}

const (
	phaseDisturbed = iota
	phaseCalm
)

func (w *World) Now() time.Time { return time.Now() }

// SimElapsed returns simulated seconds since the start of the run.
func (w *World) SimElapsed() float64 { return time.Since(w.start).Seconds() }

func (w *World) Cluster(name string) *store.Cluster {
	if name == "hosted" {
		return w.Host
	}
	return w.Mgmt
}

func (w *World) Clusters() []*store.Cluster {
	if w.Host != nil {
		return []*store.Cluster{w.Mgmt, w.Host}
	}
	return []*store.Cluster{w.Mgmt}
}

func (w *World) Tracef(format string, args ...any) {
	if w.Cfg.Trace {
		w.trace = append(w.trace, fmt.Sprintf("[%d t=%.0fs] ", w.stepNo, w.SimElapsed())+fmt.Sprintf(format, args...))
	}
}

func (w *World) Trace() []string { return w.trace }

func (w *World) Report(v Violation) {
	if v.Seq == 0 {
		v.Seq = w.C.Seq
	}
	if KnownSigs[v.Key()] {
	} else if w.Cfg.Property == "C14" && relabelForC14[v.Property] {
		// the sliced configuration must behave like the inline one: violations of the
		// rollout/teardown/status/archival properties in a sliced run are C14 violations
		v.Rule = v.Property + "-" + v.Rule
		v.Property = "C14"
	}
	if KnownSigs[v.Key()] {
		// a listed known finding of its own property: never relabelled
	} else if w.Cfg.Property == "C15" && relabelForC15[v.Property] {
		v.Rule = v.Property + "-" + v.Rule
		v.Property = "C15"
	}
	k := v.Key()
	if w.violSeen[k] {
		return
	}
	w.violSeen[k] = true
	w.Viol = append(w.Viol, v)
	w.Tracef("VIOLATION %s/%s sig=%s: %s", v.Property, v.Rule, v.Sig, v.Msg)
	if KnownSigs[k] {
		return // a listed known finding: keep going so that other violations are still found
	}
	if w.Cfg.StopOn == "" || w.Cfg.StopOn == v.Property {
		w.stopNow = true
	}
}

func newCluster(name string, c *store.Counters) *store.Cluster {
	cl := store.NewCluster(name, c, time.Now)
	for _, k := range kindTable {
		cl.Register(k.gvk, k.namespaced, k.status)
	}
	cl.Default = crdDefault
	cl.Admit = crdAdmit
	return cl
}

// NewWorld creates an empty world (called inside the synctest bubble).
func NewWorld(cfg *Config, sch, scn *choice.Seq) *World {
	w := &World{
		Cfg: cfg, Sch: sch, Scn: scn,
		C:        &store.Counters{},
		Mapper:   NewRESTMapper(),
		start:    time.Now(),
		violSeen: map[string]bool{},
		Taint:    map[string]string{},
	}
	w.Stats.Faults = map[string]int{}
	w.Stats.Probes = map[string]int{}
	w.Stats.StateHashes = map[uint64]struct{}{}
	w.Mgmt = newCluster("mgmt", w.C)
	return w
}

func (w *World) EnableHosted() {
	if w.Host == nil {
		w.Host = newCluster("hosted", w.C)
	}
}

// ---- CRD defaulting and validation (what the CRDs in config/ do) -------------

func crdDefault(k *store.KindInfo, o store.Obj) {
	if k.GVK.Group != PKOGroup {
		return
	}
	spec, _ := o["spec"].(map[string]any)
	defObjects := func(phases any) {
		pl, _ := phases.([]any)
		for _, p := range pl {
			pm, _ := p.(map[string]any)
			ol, _ := pm["objects"].([]any)
			for _, x := range ol {
				if xm, ok := x.(map[string]any); ok {
					if _, has := xm["collisionProtection"]; !has {
						xm["collisionProtection"] = "Prevent"
					}
				}
			}
		}
	}
	switch k.GVK.Kind {
	case "ObjectSet", "ClusterObjectSet":
		if spec == nil {
			spec = store.Obj{}
			o["spec"] = spec
		}
		if _, ok := spec["lifecycleState"]; !ok {
			spec["lifecycleState"] = "Active"
		}
		defObjects(spec["phases"])
	case "ObjectDeployment", "ClusterObjectDeployment":
		if spec == nil {
			spec = store.Obj{}
			o["spec"] = spec
		}
		if _, ok := spec["revisionHistoryLimit"]; !ok {
			spec["revisionHistoryLimit"] = int64(10)
		}
		defObjects(store.Get(o, "spec", "template", "spec", "phases"))
	case "ObjectSetPhase", "ClusterObjectSetPhase":
		if spec != nil {
			ol, _ := spec["objects"].([]any)
			for _, x := range ol {
				if xm, ok := x.(map[string]any); ok {
					if _, has := xm["collisionProtection"]; !has {
						xm["collisionProtection"] = "Prevent"
					}
				}
			}
		}
	case "ObjectSlice", "ClusterObjectSlice":
		ol, _ := o["objects"].([]any)
		for _, x := range ol {
			if xm, ok := x.(map[string]any); ok {
				if _, has := xm["collisionProtection"]; !has {
					xm["collisionProtection"] = "Prevent"
				}
			}
		}
	}
}

func crdAdmit(k *store.KindInfo, old, new store.Obj) *field.Error {
	if k.GVK.Group != PKOGroup {
		// generic admission marker used by the scenario generator:
		// spec.simInvalid=true is rejected like a validating webhook / schema would.
		if b, _ := store.Get(new, "spec", "simInvalid").(bool); b {
			return field.Invalid(field.NewPath("spec", "simInvalid"), true, "rejected by simulated admission")
		}
		return nil
	}
	if old == nil {
		return nil
	}
	immut := func(fields ...string) *field.Error {
		for _, f := range fields {
			a, b := store.Get(old, "spec", f), store.Get(new, "spec", f)
			if !reflect.DeepEqual(a, b) {
				return field.Invalid(field.NewPath("spec", f), nil, f+" is immutable")
			}
		}
		return nil
	}
	switch k.GVK.Kind {
	case "ObjectSet", "ClusterObjectSet":
		return immut("previous", "phases", "availabilityProbes", "successDelaySeconds")
	case "ObjectSetPhase", "ClusterObjectSetPhase":
		return immut("previous", "availabilityProbes", "revision", "objects")
	}
	return nil
}

// sortedKeys returns the keys of the store head in canonical order.
func sortedKeys(objs map[store.Key]store.Obj) []store.Key {
	keys := make([]store.Key, 0, len(objs))
	for k := range objs {
		keys = append(keys, k)
	}
	sort.Slice(keys, func(i, j int) bool { return keys[i].String() < keys[j].String() })
	return keys
}
