package cs

import (
	"fmt"

	"k8s.io/apimachinery/pkg/runtime/schema"
	utiljson "k8s.io/apimachinery/pkg/util/json"

	"package-operator.run/internal/packages/verifsim/store"
)

func unmarshalJSON(b []byte, v any) error { return utiljson.Unmarshal(b, v) }

// Config holds the per-run knobs (drawn swarm-style by the property's generator).
type Config struct {
	Property            string
	StopOn              string // stop the run at the first violation of this property ("" = any)
	Trace               bool
	Granular            bool // every API request is a scheduling point
	Faults              map[string]bool
	FaultBudget         int
	HotVerb             string // verb whose requests are faulted several times as often in this run ("" = none)
	NoFaultWeight       int
	Ndist               int
	MaxSteps            int
	CalmBudget          int
	UserOpsAtQuiescence bool
	ForceAdoption       bool
	FaultFree           bool
	Hosted              bool   // run a remote-phase-manager against a second cluster
	Packages            bool   // wire Package controllers
	Templates           bool   // wire ObjectTemplate controllers
	SweepAt             int    // single-fault sweep: index of the request to fault (-1: count only)
	SweepKind           string // err-before, lost-response, crash-before, crash-after, count
}

// AllFaultKinds lists the fault kinds the simulator can inject.
var AllFaultKinds = []string{"err-before", "lost-response", "crash", "partition", "compaction", "duplicate", "informer-start", "drift", "pull-error", "pull-torn"}

// UserOp is a change of desired state made by the user.
type UserOp struct {
	Label string
	Do    func(w *World)
}

// AgentOp is one atomic third-party request.
type AgentOp struct {
	Label  string
	Weight int
	Do     func(w *World)
}

// Agent is a third-party actor (workload controller, garbage collector, intruder, ...).
type Agent interface {
	Name() string
	// Ops returns the currently enabled operations in canonical order. In the
	// calm phase only convergent, non-disturbing operations may be returned.
	Ops(w *World, calm bool) []AgentOp
}

// Scenario is what a generator produced for this run.
type Scenario struct {
	Family   string
	Desc     []string
	UserOps  []UserOp
	nextUser int
	// facts the generator knows and monitors may use
	Facts map[string]any
}

func (w *World) applyNextUserOp() {
	s := w.Scenario
	if s == nil || s.nextUser >= len(s.UserOps) {
		return
	}
	op := s.UserOps[s.nextUser]
	s.nextUser++
	w.Tracef("USER %s", op.Label)
	op.Do(w)
}

func (w *World) AddAgent(a Agent) { w.agents = append(w.agents, a) }

// ---- third-party request helpers (recorded in the history like any request) -------

type TP struct {
	w    *World
	name string
	cl   *store.Cluster
}

func (w *World) TP(name string, cl *store.Cluster) TP { return TP{w: w, name: name, cl: cl} }

func (t TP) rec(verb string, o store.Obj, key store.Key, run func() (store.Obj, error)) (store.Obj, error) {
	gvk := schema.GroupVersionKind{Group: key.Group, Kind: key.Kind}
	if k, err := t.cl.Kind(key.GK()); err == nil {
		gvk = k.GVK
	}
	r := &Req{Actor: "thirdparty/" + t.name, Cluster: t.cl.Name, Verb: verb, GVK: gvk, NS: key.Namespace, Name: key.Name, Body: o, Site: "thirdparty", Client: "thirdparty"}
	err := t.w.exec(nil, t.cl, r, run)
	t.w.record(nil, r)
	return r.Returned, err
}

func (t TP) Create(o store.Obj) (store.Obj, error) {
	o = store.Normalize(o)
	return t.rec("create", o, store.KeyOf(o), func() (store.Obj, error) { return t.cl.Create(o, false) })
}

func (t TP) Mutate(key store.Key, fn func(o store.Obj)) (store.Obj, error) {
	return t.rec("update", nil, key, func() (store.Obj, error) { return t.cl.Mutate(key, fn) })
}

func (t TP) Delete(key store.Key, propagation string) error {
	_, err := t.rec("delete", nil, key, func() (store.Obj, error) {
		return t.cl.Delete(key.GK(), key.Namespace, key.Name, store.DeleteOpts{Propagation: propagation})
	})
	return err
}

func must(err error) {
	if err != nil {
		panic(fmt.Sprintf("scenario setup: %v", err))
	}
}
