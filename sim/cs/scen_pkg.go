package cs

import (
	"context"
	"errors"
	"fmt"
	"sort"
	"strings"

	"package-operator.run/internal/packages/verifsim/store"
)

// PkgImage is what the scripted registry serves for one image reference, plus
// what the generator knows about it.
type PkgImage struct {
	Ref   string
	Files map[string][]byte
	// Class: valid | no-manifest | bad-manifest | bad-object | needs-config |
	// constraint-openshift | constraint-version | constraint-unique | pull-fails
	Class      string
	Name       string // manifest name
	NeedsColor bool   // config schema requires .color (string)
	Multi      bool   // has components frontend/backend
	Big        bool   // objects large enough for bin-packing to chunk
	Objects    int    // extra ConfigMaps in phase alpha
}

type pullRec struct {
	Seq   uint64
	Image string
	Pass  *Pass
	Err   string
}

// Registry is the scripted container registry.
type Registry struct {
	w      *World
	Images map[string]*PkgImage
	Pulls  []pullRec
}

func manifestYAML(name string, needsColor bool, constraint string, components bool) string {
	var b strings.Builder
	b.WriteString("apiVersion: manifests.package-operator.run/v1alpha1\nkind: PackageManifest\nmetadata:\n  name: " + name + "\nspec:\n")
	if components {
		b.WriteString("  components: {}\n")
	}
	b.WriteString("  scopes:\n  - Cluster\n  - Namespaced\n  phases:\n  - name: alpha\n  - name: bravo\n")
	b.WriteString("  availabilityProbes:\n  - probes:\n    - condition:\n        type: Available\n        status: \"True\"\n    selector:\n      kind:\n        group: apps\n        kind: Deployment\n")
	if needsColor {
		b.WriteString("  config:\n    openAPIV3Schema:\n      type: object\n      properties:\n        color:\n          type: string\n      required:\n      - color\n")
	}
	switch constraint {
	case "openshift":
		b.WriteString("  constraints:\n  - platform: [OpenShift]\n")
	case "version":
		b.WriteString("  constraints:\n  - platformVersion:\n      name: Kubernetes\n      range: \">=1.99.0\"\n")
	case "unique":
		b.WriteString("  constraints:\n  - uniqueInScope: {}\n")
	case "mixed":
		// the OpenShift version constraint does not apply on plain Kubernetes; the one after it is unmet
		b.WriteString("  constraints:\n  - platformVersion:\n      name: OpenShift\n      range: \">=4.0.0\"\n  - platformVersion:\n      name: Kubernetes\n      range: \">=1.99.0\"\n")
	case "met":
		b.WriteString("  constraints:\n  - platformVersion:\n      name: OpenShift\n      range: \">=4.0.0\"\n  - platformVersion:\n      name: Kubernetes\n      range: \">=1.20.0\"\n  - platform: [Kubernetes]\n")
	}
	return b.String()
}

func cmYAML(name, phase, color string, pad int) string {
	s := "apiVersion: v1\nkind: ConfigMap\nmetadata:\n  name: \"" + name + "\"\n  namespace: ns1\n  annotations:\n    package-operator.run/phase: " + phase + "\ndata:\n  k: \"" + color + "\"\n"
	if pad > 0 {
		s += "  pad: \"" + strings.Repeat("x", pad) + "\"\n"
	}
	return s
}

func depYAML(name, phase string) string {
	return "apiVersion: apps/v1\nkind: Deployment\nmetadata:\n  name: \"" + name + "\"\n  namespace: ns1\n  annotations:\n    package-operator.run/phase: " + phase + "\nspec:\n  replicas: 1\n"
}

// buildImage produces the file set of one image class.
func buildImage(ref, class string, variant int) *PkgImage {
	img := &PkgImage{Ref: ref, Class: class, Name: "pkg-" + ref, Files: map[string][]byte{}}
	pn := `{{.package.metadata.name}}`
	switch class {
	case "valid", "needs-config", "constraint-openshift", "constraint-version", "constraint-unique", "constraint-mixed", "constraint-met", "big", "scope-namespaced", "scope-cluster", "requires-config":
		constraint := ""
		switch class {
		case "constraint-openshift":
			constraint = "openshift"
		case "constraint-version":
			constraint = "version"
		case "constraint-unique":
			constraint = "unique"
		case "constraint-mixed":
			constraint = "mixed"
		case "constraint-met":
			constraint = "met"
		}
		// requires-config: the schema demands .color although no template uses it
		img.NeedsColor = class == "needs-config" || class == "requires-config"
		img.Files["manifest.yaml"] = []byte(manifestYAML(img.Name, img.NeedsColor, constraint, false))
		if only := map[string]string{"scope-namespaced": "Namespaced", "scope-cluster": "Cluster"}[class]; only != "" {
			// a manifest that supports only one of the two scopes
			img.Files["manifest.yaml"] = []byte(strings.Replace(string(img.Files["manifest.yaml"]), "  scopes:\n  - Cluster\n  - Namespaced\n", "  scopes:\n  - "+only+"\n", 1))
		}
		color := fmt.Sprintf("v%d", variant)
		if class == "needs-config" {
			color = "{{.config.color}}"
		}
		img.Files["cm.yaml.gotmpl"] = []byte(cmYAML(pn+"-cm", "alpha", color, 0))
		// multi-document file: two more objects, one per phase
		img.Files["more.yaml.gotmpl"] = []byte(cmYAML(pn+"-cm2", "alpha", color, 0) + "---\n" + depYAML(pn+"-dep", "bravo"))
		if class == "big" {
			img.Big = true
			img.Objects = 3
			for i := 0; i < 3; i++ {
				img.Files[fmt.Sprintf("big%d.yaml.gotmpl", i)] = []byte(cmYAML(fmt.Sprintf("%s-big%d", pn, i), "alpha", color, 420*1024))
			}
		}
	case "multi":
		img.Multi = true
		img.Files["manifest.yaml"] = []byte(manifestYAML(img.Name, false, "", true))
		img.Files["root.yaml.gotmpl"] = []byte(cmYAML(pn+"-root", "alpha", "root", 0))
		for _, c := range []string{"frontend", "backend"} {
			img.Files["components/"+c+"/manifest.yaml"] = []byte(manifestYAML(img.Name+"-"+c, false, "", false))
			img.Files["components/"+c+"/cm.yaml.gotmpl"] = []byte(cmYAML(pn+"-"+c, "alpha", c, 0) + "---\n" + depYAML(pn+"-"+c+"-dep", "bravo"))
		}
		// a sibling whose directory name merely starts with the name of another component is a component of
		// its own (never selected by the generated packages): nothing of it belongs to "backend"
		img.Files["components/backend-api/manifest.yaml"] = []byte(manifestYAML(img.Name+"-backend-api", false, "", false))
		img.Files["components/backend-api/cm.yaml.gotmpl"] = []byte(cmYAML(pn+"-backend-api", "alpha", "backend-api", 0))
	case "bad-condition-map":
		img.Files["manifest.yaml"] = []byte(manifestYAML(img.Name, false, "", false))
		img.Files["cm.yaml"] = []byte("apiVersion: v1\nkind: ConfigMap\nmetadata:\n  name: cm-map\n  namespace: ns1\n  annotations:\n    package-operator.run/phase: alpha\n    package-operator.run/condition-map: \"no arrow here\"\ndata:\n  k: v\n")
	case "torn", "torn-late", "empty-image", "corrupt-header":
		img.Files["manifest.yaml"] = []byte(manifestYAML(img.Name, false, "", false))
		img.Files["cm.yaml"] = []byte(cmYAML("torn-cm", "alpha", "x", 2048))
	case "garbage-yaml":
		img.Files["manifest.yaml"] = []byte(manifestYAML(img.Name, false, "", false))
		img.Files["a.yaml"] = []byte("\x00\x01\x02: [}{\n---\n- just\n- a list\n---\n42\n")
		img.Files["b.yaml.gotmpl"] = []byte("{{ range .config }}{{ . }}{{ end }}{{ template \"nope\" }}")
	case "no-kind":
		img.Files["manifest.yaml"] = []byte(manifestYAML(img.Name, false, "", false))
		img.Files["a.yaml"] = []byte("metadata:\n  name: nokind\n  annotations:\n    package-operator.run/phase: alpha\n---\napiVersion: v1\nkind: ConfigMap\nmetadata:\n  annotations:\n    package-operator.run/phase: alpha\n")
	case "weird-annotations":
		img.Files["manifest.yaml"] = []byte(manifestYAML(img.Name, false, "", false))
		img.Files["a.yaml"] = []byte("apiVersion: v1\nkind: ConfigMap\nmetadata:\n  name: weird\n  namespace: ns1\n  annotations:\n    package-operator.run/phase: alpha\n    package-operator.run/condition-map: \"=>\\n => x\\nA => \"\n    package-operator.run/collision-protection: Bogus\n    package-operator.run/condition: \"1 +\"\n")
	case "cel-nonbool":
		// CEL conditions whose value is only known at run time and is not a bool (string, number, map, null)
		img.Files["manifest.yaml"] = []byte(manifestYAML(img.Name, false, "", false))
		expr := []string{"config.color", "config", "environment.kubernetes.version", "has(config.color) ? config.color : 0", "images"}[variant%5]
		img.Files["a.yaml"] = []byte("apiVersion: v1\nkind: ConfigMap\nmetadata:\n  name: celcm\n  namespace: ns1\n  annotations:\n    package-operator.run/phase: alpha\n    package-operator.run/condition: \"" + expr + "\"\n")
	case "cel-filter":
		img.Files["manifest.yaml"] = []byte(strings.Replace(manifestYAML(img.Name, false, "", false), "  scopes:", "  filters:\n    conditions:\n    - name: c1\n      expression: \"config.color\"\n    paths:\n    - glob: \"a*\"\n      expression: \"config\"\n  scopes:", 1))
		img.Files["a.yaml"] = []byte("apiVersion: v1\nkind: ConfigMap\nmetadata:\n  name: celcm\n  namespace: ns1\n  annotations:\n    package-operator.run/phase: alpha\n    package-operator.run/condition: \"cond.c1\"\n")
	case "deep-template":
		img.Files["manifest.yaml"] = []byte(manifestYAML(img.Name, false, "", false))
		img.Files["a.yaml.gotmpl"] = []byte("{{ define \"r\" }}{{ template \"r\" . }}{{ end }}apiVersion: v1\nkind: ConfigMap\nmetadata:\n  name: deep\n  namespace: ns1\n  annotations:\n    package-operator.run/phase: alpha\ndata:\n  k: \"{{ template \"r\" . }}\"\n")
	case "deep-include":
		// a helper that first includes itself in a way that returns and then recurses for good: the include
		// depth guard has to count the includes that are still running, not the ones that have returned
		img.Files["manifest.yaml"] = []byte(manifestYAML(img.Name, false, "", false))
		img.Files["a.yaml.gotmpl"] = []byte("{{- define \"walk\" -}}{{- if .leaf -}}x{{- else -}}{{ include \"walk\" (dict \"leaf\" true) }}{{ include \"walk\" . }}{{- end -}}{{- end -}}\napiVersion: v1\nkind: ConfigMap\nmetadata:\n  name: deep\n  namespace: ns1\n  annotations:\n    package-operator.run/phase: alpha\ndata:\n  k: \"{{ include \"walk\" (dict \"leaf\" false) }}\"\n")
	case "manifest-list":
		img.Files["manifest.yaml"] = []byte("- a\n- b\n")
		img.Files["manifest.yml"] = []byte(manifestYAML(img.Name, false, "", false))
	case "non-string-annotation":
		img.Files["manifest.yaml"] = []byte(manifestYAML(img.Name, false, "", false))
		img.Files["a.yaml"] = []byte("apiVersion: v1\nkind: ConfigMap\nmetadata:\n  name: nsa\n  namespace: ns1\n  annotations:\n    package-operator.run/phase: [alpha]\n    other: 5\n  labels: notamap\n")
	case "no-manifest":
		img.Files["cm.yaml"] = []byte(cmYAML("orphan-cm", "alpha", "x", 0))
	case "garbled-manifest":
		img.Files["manifest.yaml"] = []byte("{{{ this is not yaml: [\n")
	case "bad-manifest":
		img.Files["manifest.yaml"] = []byte("apiVersion: manifests.package-operator.run/v1alpha1\nkind: PackageManifest\nmetadata:\n  name: broken\nspec:\n  scopes: [Nowhere]\n  phases: []\n")
	case "bad-object":
		img.Files["manifest.yaml"] = []byte(manifestYAML(img.Name, false, "", false))
		img.Files["cm.yaml"] = []byte(cmYAML("bad-cm", "no-such-phase", "x", 0))
	case "dup-version":
		// the same object twice, under two API versions of its kind
		img.Files["manifest.yaml"] = []byte(manifestYAML(img.Name, false, "", false))
		img.Files["cm.yaml.gotmpl"] = []byte(cmYAML(pn+"-cm", "alpha", "x", 0))
		img.Files["dep.yaml.gotmpl"] = []byte(depYAML(pn+"-dep", "bravo"))
		img.Files["dep-old.yaml.gotmpl"] = []byte(strings.Replace(depYAML(pn+"-dep", "bravo"), "apps/v1", "apps/v1beta1", 1))
	case "pull-fails":
	}
	return img
}

// Admissible reports whether the image can be rolled out for the given
// Package spec and environment, and if not, which failure class applies.
func (img *PkgImage) Admissible(spec map[string]any, scopeCluster bool, others int) (bool, string) {
	switch img.Class {
	case "pull-fails":
		return false, "pull"
	case "bad-condition-map", "torn", "torn-late", "corrupt-header", "empty-image", "garbage-yaml", "no-kind", "weird-annotations", "deep-template", "deep-include", "manifest-list", "non-string-annotation", "cel-nonbool", "cel-filter":
		return false, "hostile"
	case "no-manifest", "garbled-manifest":
		return false, "load"
	case "bad-manifest":
		return false, "validation"
	case "scope-namespaced":
		if scopeCluster {
			return false, "validation"
		}
	case "scope-cluster":
		if !scopeCluster {
			return false, "validation"
		}
	case "bad-object", "dup-version":
		return false, "object-validation"
	case "constraint-openshift", "constraint-version", "constraint-mixed":
		return false, "constraint"
	case "constraint-unique":
		if others > 0 {
			return false, "constraint"
		}
	}
	comp, _ := spec["component"].(string)
	if img.Multi {
		if comp != "" && comp != "frontend" && comp != "backend" {
			return false, "load"
		}
	} else if comp != "" {
		return false, "load"
	}
	if img.NeedsColor {
		cfg, _ := spec["config"].(map[string]any)
		if _, ok := cfg["color"].(string); !ok {
			return false, "config-schema"
		}
	}
	return true, ""
}

// ExpectedObjects lists "phase/Kind/name" of what a valid spec renders to.
func (img *PkgImage) ExpectedObjects(pkgName string, spec map[string]any) []string {
	var out []string
	comp, _ := spec["component"].(string)
	switch {
	case img.Multi && comp == "":
		out = append(out, "alpha/ConfigMap/"+pkgName+"-root")
	case img.Multi:
		out = append(out, "alpha/ConfigMap/"+pkgName+"-"+comp, "bravo/Deployment/"+pkgName+"-"+comp+"-dep")
	default:
		out = append(out, "alpha/ConfigMap/"+pkgName+"-cm", "alpha/ConfigMap/"+pkgName+"-cm2", "bravo/Deployment/"+pkgName+"-dep")
		for i := 0; i < img.Objects; i++ {
			out = append(out, fmt.Sprintf("alpha/ConfigMap/%s-big%d", pkgName, i))
		}
	}
	sort.Strings(out)
	return out
}

// Pull is the scripted pull function handed to the real RequestManager.
func (r *Registry) Pull(ctx context.Context, image string) (map[string][]byte, error) {
	w := r.w
	rec := pullRec{Seq: w.C.NextSeq(), Image: image}
	if a := actorFrom(ctx); a != nil {
		rec.Pass = a.pass
	}
	img := r.Images[image]
	var err error
	switch {
	case img == nil:
		err = errors.New("simulated registry: manifest unknown")
	case img.Class == "pull-fails":
		err = errors.New("simulated registry: unauthorized")
	case w.faultsOn() && w.Cfg.Faults["pull-error"] && w.Sch.Chance(1, 6, "pull-error"):
		w.Stats.Fault("pull-error")
		if rec.Pass != nil {
			rec.Pass.Faulted = true
		}
		err = errors.New("simulated registry: connection reset")
	}
	if err != nil {
		rec.Err = err.Error()
	}
	r.Pulls = append(r.Pulls, rec)
	w.Tracef("PULL %s -> %v", image, err)
	if err != nil {
		return nil, err
	}
	files := map[string][]byte{}
	for k, v := range img.Files {
		files[k] = append([]byte{}, v...)
	}
	return files, nil
}

// PKGGen is the generated Package scenario.
type PKGGen struct {
	Reg       *Registry
	Cluster   bool
	Kind      string
	Keys      []store.Key
	OpenShift bool
}

var hostileClasses = []string{"bad-condition-map", "torn", "torn-late", "corrupt-header", "empty-image", "garbage-yaml", "no-kind", "weird-annotations", "deep-template", "deep-include", "manifest-list", "non-string-annotation", "cel-nonbool", "cel-nonbool", "cel-filter"}

var imageClasses = []string{"valid", "valid", "needs-config", "multi", "no-manifest", "garbled-manifest", "bad-manifest", "bad-object", "dup-version", "scope-namespaced", "scope-cluster", "requires-config", "constraint-openshift", "constraint-version", "constraint-mixed", "constraint-met", "pull-fails", "big"}

// GenPKG generates (Cluster)Packages, the images behind them and spec edits.
func GenPKG(w *World, maxEdits int, opts ...string) *Scenario {
	has := func(o string) bool {
		for _, x := range opts {
			if x == o {
				return true
			}
		}
		return false
	}
	noErrorLoops, hostile, finalDelete, sliceHeavy := has("no-error-loops"), has("hostile"), has("final-delete"), has("slice-heavy")
	s := w.Scn
	sc := &Scenario{Family: "S-PKG", Facts: map[string]any{}}
	reg := &Registry{w: w, Images: map[string]*PkgImage{}}
	g := &PKGGen{Reg: reg}
	sc.Facts["pkg"] = g
	w.Registry = reg
	g.Cluster = s.Chance(1, 4, "cluster-scoped")
	g.Kind = "Package"
	ns := nsMain
	if g.Cluster {
		g.Kind, ns = "ClusterPackage", ""
	}
	user := w.TP("user", w.Mgmt)
	for _, n := range []string{nsMain, nsForeign} {
		_, err := user.Create(store.Obj{"apiVersion": "v1", "kind": "Namespace", "metadata": map[string]any{"name": n}})
		must(err)
	}
	// images: a pool of 3-5 references with drawn classes (at least one valid)
	nImg := 3 + s.Intn(3, "nImages")
	var refs []string
	for i := 0; i < nImg; i++ {
		ref := fmt.Sprintf("img-%d", i)
		class := imageClasses[s.Intn(len(imageClasses), "image-class")]
		if hostile && s.Chance(2, 3, "hostile-class") {
			class = hostileClasses[s.Intn(len(hostileClasses), "hostile-class-idx")]
		}
		if sliceHeavy {
			// admissible images only: every edit produces a new, sliced revision
			class = []string{"valid", "valid", "multi", "needs-config", "big"}[s.Intn(5, "slice-heavy-class")]
		}
		if i == 0 {
			class = "valid"
		}
		if noErrorLoops && (class == "bad-manifest" || class == "bad-object" || class == "dup-version" || class == "scope-namespaced" || class == "scope-cluster") {
			// these fail on every pass without ever persisting status: transient faults
			// leave residue in conditions that says nothing about convergence
			class = "no-manifest"
		}
		reg.Images[ref] = buildImage(ref, class, i)
		refs = append(refs, ref)
		sc.Desc = append(sc.Desc, fmt.Sprintf("image %s: %s", ref, class))
	}
	configs := []map[string]any{nil, {"color": "red"}, {"color": "blue"}, {"color": int64(5)}}
	if noErrorLoops || sliceHeavy {
		configs = []map[string]any{{"color": "green"}, {"color": "red"}, {"color": "blue"}}
	}
	mkSpec := func() map[string]any {
		spec := map[string]any{"image": refs[s.Intn(len(refs), "pkg-image")]}
		if c := configs[s.Intn(len(configs), "pkg-config")]; c != nil {
			spec["config"] = store.Copy(c)
		}
		switch s.Intn(5, "pkg-component") {
		case 1:
			spec["component"] = "frontend"
		case 2:
			spec["component"] = "backend"
		}
		return spec
	}
	nPkg := 1 + s.Intn(2, "nPackages")
	// namesake: the second package has the name of the first and lives in another namespace (its objects
	// still ask for ns1, so it never rolls out, but it has a deployment, revisions and slices of its own)
	namesake := has("namesake") && !g.Cluster && s.Chance(1, 3, "namesake")
	if namesake {
		nPkg = 2
	}
	for i := 0; i < nPkg; i++ {
		name := fmt.Sprintf("p%d", i+1)
		pns := ns
		if namesake && i == 1 {
			name, pns = "p1", nsForeign
		}
		key := store.Key{Group: PKOGroup, Kind: g.Kind, Namespace: pns, Name: name}
		g.Keys = append(g.Keys, key)
		spec := mkSpec()
		o := store.Obj{"apiVersion": PKOGroup + "/" + PKOVer, "kind": g.Kind, "metadata": map[string]any{"name": name}, "spec": spec}
		if !g.Cluster {
			store.Meta(o)["namespace"] = pns
		}
		chunking := s.Intn(4, "chunking")
		if sliceHeavy && s.Chance(2, 3, "each-object") {
			chunking = 1
		}
		if has("recreate") && s.Chance(1, 2, "each-object-recreate") {
			chunking = 1 // a re-created package meets the slices its predecessor left behind
		}
		switch chunking {
		case 1:
			setAnnotation(o, "packages.package-operator.run/chunking-strategy", "EachObject")
		case 2:
			setAnnotation(o, "packages.package-operator.run/chunking-strategy", "NoOp")
		}
		if s.Chance(1, 10, "start-paused") {
			spec["paused"] = true
		}
		_, err := user.Create(o)
		must(err)
		sc.Desc = append(sc.Desc, fmt.Sprintf("%s %s/%s spec=%v annotations=%v", g.Kind, pns, name, spec, store.Annotations(o)))
	}
	nE := s.Intn(maxEdits+1, "nEdits")
	hist := map[store.Key][]map[string]any{}
	for _, k := range g.Keys {
		if o, ok := w.Mgmt.Objs[k]; ok {
			sp, _ := o["spec"].(map[string]any)
			hist[k] = append(hist[k], store.Copy(sp))
		}
	}
	for i := 0; i < nE; i++ {
		key := g.Keys[s.Intn(len(g.Keys), "edit-target")]
		kind := s.Weighted([]int{6, 2, 2, 3}, "edit-kind")
		if kind == 3 && len(hist[key]) < 2 {
			kind = 0
		}
		switch kind {
		case 0, 3:
			spec := mkSpec()
			if kind == 3 {
				// roll back: exactly the spec before the last edit
				spec = store.Copy(hist[key][len(hist[key])-2])
				delete(spec, "paused")
			}
			hist[key] = append(hist[key], store.Copy(spec))
			sc.UserOps = append(sc.UserOps, UserOp{Label: fmt.Sprintf("edit %s spec -> %v", key.Name, spec), Do: func(w *World) {
				_, _ = w.TP("user", w.Mgmt).Mutate(key, func(o store.Obj) {
					old, _ := o["spec"].(map[string]any)
					ns := store.Copy(spec)
					if p, ok := old["paused"]; ok {
						ns["paused"] = p
					}
					o["spec"] = ns
				})
			}})
		case 1:
			sc.UserOps = append(sc.UserOps, UserOp{Label: "pause " + key.Name, Do: func(w *World) {
				_, _ = w.TP("user", w.Mgmt).Mutate(key, func(o store.Obj) { o["spec"].(map[string]any)["paused"] = true })
			}})
		case 2:
			sc.UserOps = append(sc.UserOps, UserOp{Label: "unpause " + key.Name, Do: func(w *World) {
				_, _ = w.TP("user", w.Mgmt).Mutate(key, func(o store.Obj) { delete(o["spec"].(map[string]any), "paused") })
			}})
		}
	}
	if finalDelete && s.Chance(2, 3, "final-delete") {
		key := g.Keys[s.Intn(len(g.Keys), "delete-target")]
		prop := []string{"Background", "Foreground"}[s.Intn(2, "delete-propagation")]
		sc.UserOps = append(sc.UserOps, UserOp{Label: fmt.Sprintf("delete %s (%s)", key.Name, prop), Do: func(w *World) {
			_ = w.TP("user", w.Mgmt).Delete(key, prop)
		}})
		if has("recreate") && s.Chance(2, 3, "recreate") {
			// the same package again before everything of the old one has been collected
			var again store.Obj
			if o, ok := w.Mgmt.Objs[key]; ok {
				again = store.Obj{"apiVersion": o["apiVersion"], "kind": o["kind"], "metadata": map[string]any{"name": key.Name}, "spec": store.Copy(o)["spec"]}
				if key.Namespace != "" {
					store.Meta(again)["namespace"] = key.Namespace
				}
				if a := store.Annotations(o); len(a) > 0 {
					for k, v := range a {
						setAnnotation(again, k, v)
					}
				}
			}
			if again != nil {
				sc.UserOps = append(sc.UserOps, UserOp{Label: "re-create " + key.Name, Do: func(w *World) {
					if _, exists := w.Mgmt.Objs[key]; !exists {
						_, _ = w.TP("user", w.Mgmt).Create(store.Copy(again))
					}
				}})
			}
		}
	}
	wl := &WorkloadAgent{Cluster: "mgmt", Policy: map[store.Key]string{}, Budget: s.Intn(4, "workload-budget")}
	w.AddAgent(wl)
	if has("squatter") && s.Bool("squatter") {
		w.AddAgent(&SliceSquatter{Budget: 1 + s.Intn(2, "squatter-budget")})
	}
	w.AddAgent(&GCAgent{Cluster: "mgmt"})
	return sc
}
