package cs

import (
	"context"
	"encoding/json"
	"errors"
	"fmt"
	"reflect"
	"runtime"
	"strings"

	apierrors "k8s.io/apimachinery/pkg/api/errors"
	"k8s.io/apimachinery/pkg/api/meta"
	metav1 "k8s.io/apimachinery/pkg/apis/meta/v1"
	"k8s.io/apimachinery/pkg/apis/meta/v1/unstructured"
	"k8s.io/apimachinery/pkg/labels"
	k8sruntime "k8s.io/apimachinery/pkg/runtime"
	"k8s.io/apimachinery/pkg/runtime/schema"
	"k8s.io/apimachinery/pkg/types"
	"sigs.k8s.io/controller-runtime/pkg/client"
	"sigs.k8s.io/controller-runtime/pkg/client/apiutil"

	"package-operator.run/internal/packages/verifsim/store"
)

// Req is one API request as recorded in the history.
type Req struct {
	Seq     uint64 // global sequence number at execution
	Actor   string // actor id ("manager/ObjectSet#0", "thirdparty/intruder", ...)
	Pass    *Pass  // nil for third parties
	Cluster string
	Verb    string // get, list, create, update, update-status, patch, delete
	GVK     schema.GroupVersionKind
	NS      string
	Name    string
	Cached  bool // read served from the process view
	DryRun  bool
	Patch   string // merge, apply, json
	Force   bool
	Manager string
	PreUID  string
	PreRV   string
	Propag  string
	Body    store.Obj // request body (object or decoded patch)
	Site    string    // innermost package-operator frame that issued the call
	Client  string    // which client object was used (mgr, uncached, target, dyncache)

	// results
	Fault    string // injected fault kind, if any
	Applied  bool   // the store executed the request
	Err      error  // what the caller saw
	StoreErr error  // what the API server answered (differs from Err under lost-response / crash)
	Before   store.Obj
	After    store.Obj // stored object after the write (nil if deleted/not applied)
	Deleted  bool      // the object disappeared from the store through this request
	Returned store.Obj // body returned to the caller (reads and writes)
	Items    []store.Obj
	Changed  bool // the store changed
}

func (r *Req) Key() store.Key {
	return store.Key{Group: r.GVK.Group, Kind: r.GVK.Kind, Namespace: r.NS, Name: r.Name}
}

// Succeeded reports whether the API server executed the request successfully
// (regardless of whether the caller got to see the response).
func (r *Req) Succeeded() bool { return r.Applied && r.StoreErr == nil }

func (r *Req) IsWrite() bool {
	switch r.Verb {
	case "create", "update", "update-status", "patch", "delete":
		return true
	}
	return false
}

func (r *Req) ErrReason() string {
	if r.Err == nil {
		return ""
	}
	if s := apierrors.ReasonForError(r.Err); s != metav1.StatusReasonUnknown {
		return string(s)
	}
	if meta.IsNoMatchError(r.Err) {
		return "NoMatch"
	}
	return "Error"
}

func (r *Req) String() string {
	o := ""
	if r.DryRun {
		o += " dry"
	}
	if r.Patch != "" {
		o += " " + r.Patch
	}
	if r.Cached {
		o += " cached"
	}
	if r.Fault != "" {
		o += " FAULT=" + r.Fault
	}
	res := "ok"
	if r.Err != nil {
		res = r.ErrReason()
	}
	own := ""
	if r.IsWrite() && !r.DryRun && r.After != nil && r.GVK.Group != PKOGroup && r.Changed {
		for _, st := range []string{"native", "annotation"} {
			for _, ow := range Owners(r.After, st) {
				c := ""
				if ow.Controller {
					c = "*"
				}
				own += " " + ow.Name + c
			}
		}
		own = " owners:[" + strings.TrimSpace(own) + "] rev=" + store.Annotations(r.After)[annRevision]
	}
	return fmt.Sprintf("#%d %s %s %s %s/%s/%s%s -> %s%s [%s]", r.Seq, r.Actor, r.Verb, r.Cluster, r.GVK.Kind, r.NS, r.Name, o, res, own, r.Site)
}

// Pass groups the requests of one Reconcile call.
type Pass struct {
	ID       int
	Proc     string
	Ctrl     string
	Key      types.NamespacedName
	Reqs     []*Req
	Faulted  bool // a fault was injected into one of its requests
	Crashed  bool
	Done     bool
	Err      error
	Requeue  bool
	After    float64 // RequeueAfter seconds
	Panic    string
	StartSeq uint64
	EndSeq   uint64
	// monitor scratch space
	Notes map[string]any
}

// LastSeen returns the last body the pass observed for key (read result or the
// response of its own write), and whether it observed it at all. A NotFound
// read counts as observed-absent (nil, true).
func (p *Pass) LastSeen(cluster string, key store.Key, before uint64) (store.Obj, bool) {
	var out store.Obj
	seen := false
	for _, r := range p.Reqs {
		if before != 0 && r.Seq >= before {
			break
		}
		if r.Cluster != cluster || r.DryRun {
			continue
		}
		if r.Verb == "list" {
			if r.Err == nil && r.GVK.Group == key.Group && r.GVK.Kind == key.Kind {
				for _, it := range r.Items {
					if store.KeyOf(it).Name == key.Name && (store.KeyOf(it).Namespace == key.Namespace) {
						out, seen = it, true
					}
				}
			}
			continue
		}
		if r.Key() != key {
			continue
		}
		switch {
		case r.Err == nil && r.Returned != nil:
			out, seen = r.Returned, true
		case r.Err != nil && apierrors.IsNotFound(r.Err) && r.Fault == "":
			out, seen = nil, true
		}
	}
	return out, seen
}

// Observations returns every body the pass observed for key before seq, in
// order (nil entries are observed-absent). seq 0 means the whole pass.
func (p *Pass) Observations(cluster string, key store.Key, before uint64) []store.Obj {
	var out []store.Obj
	for _, r := range p.Reqs {
		if before != 0 && r.Seq >= before {
			break
		}
		if r.Cluster != cluster || r.DryRun {
			continue
		}
		if r.Verb == "list" {
			if r.Err == nil && r.GVK.Group == key.Group && r.GVK.Kind == key.Kind {
				for _, it := range r.Items {
					if k := store.KeyOf(it); k.Name == key.Name && k.Namespace == key.Namespace {
						out = append(out, it)
					}
				}
			}
			continue
		}
		if r.Key() != key {
			continue
		}
		switch {
		case r.Err == nil && r.Returned != nil:
			out = append(out, r.Returned)
		case r.Err != nil && apierrors.IsNotFound(r.Err) && r.Fault == "":
			out = append(out, nil)
		}
	}
	return out
}

// ---- client ----------------------------------------------------------------

type actorKey struct{}

func withActor(ctx context.Context, a *Actor) context.Context {
	return context.WithValue(ctx, actorKey{}, a)
}

func actorFrom(ctx context.Context) *Actor {
	a, _ := ctx.Value(actorKey{}).(*Actor)
	return a
}

// Client implements client.Client directly on a simulated cluster.
type Client struct {
	w      *World
	p      *Process
	cl     *store.Cluster
	name   string
	cached bool // typed reads are served from the process view
	sub    string
}

var _ client.Client = (*Client)(nil)

func (c *Client) Scheme() *k8sruntime.Scheme  { return Scheme }
func (c *Client) RESTMapper() meta.RESTMapper { return c.w.Mapper }
func (c *Client) GroupVersionKindFor(obj k8sruntime.Object) (schema.GroupVersionKind, error) {
	return apiutil.GVKForObject(obj, Scheme)
}

func (c *Client) IsObjectNamespaced(obj k8sruntime.Object) (bool, error) {
	gvk, err := apiutil.GVKForObject(obj, Scheme)
	if err != nil {
		return false, err
	}
	k, err := c.cl.Kind(gvk.GroupKind())
	if err != nil {
		return false, err
	}
	return k.Namespaced, nil
}

func (c *Client) Status() client.SubResourceWriter { return &subWriter{c: c, sub: "status"} }
func (c *Client) SubResource(s string) client.SubResourceClient {
	return &subWriter{c: c, sub: s}
}

func toObj(obj k8sruntime.Object) (store.Obj, schema.GroupVersionKind, error) {
	if u, ok := obj.(*unstructured.Unstructured); ok {
		return store.Copy(u.Object), u.GroupVersionKind(), nil
	}
	gvk, err := apiutil.GVKForObject(obj, Scheme)
	if err != nil {
		return nil, gvk, err
	}
	b, err := json.Marshal(obj)
	if err != nil {
		return nil, gvk, err
	}
	o := store.Obj{}
	if err := unmarshalJSON(b, &o); err != nil {
		return nil, gvk, err
	}
	o["apiVersion"] = gvk.GroupVersion().String()
	o["kind"] = gvk.Kind
	return o, gvk, nil
}

// fromObj loads a response body into the caller's object the way the real
// clients do: unstructured objects are replaced; typed objects are decoded
// "into" (fields absent from the JSON keep their value) unless replace is set
// (cache reads copy the whole cached object).
func fromObj(res store.Obj, obj k8sruntime.Object, replace bool) error {
	if u, ok := obj.(*unstructured.Unstructured); ok {
		u.Object = store.Copy(res)
		return nil
	}
	gvkBefore := obj.GetObjectKind().GroupVersionKind()
	if replace {
		v := reflect.ValueOf(obj).Elem()
		v.Set(reflect.Zero(v.Type()))
	}
	b, err := json.Marshal(res)
	if err != nil {
		return err
	}
	if err := json.Unmarshal(b, obj); err != nil {
		return fmt.Errorf("decoding response into %T: %w", obj, err)
	}
	if replace {
		gvk, _ := apiutil.GVKForObject(obj, Scheme)
		obj.GetObjectKind().SetGroupVersionKind(gvk)
	} else {
		obj.GetObjectKind().SetGroupVersionKind(gvkBefore)
	}
	return nil
}

func callSite() string {
	pcs := make([]uintptr, 40)
	n := runtime.Callers(3, pcs)
	frames := runtime.CallersFrames(pcs[:n])
	for {
		f, more := frames.Next()
		fn := f.Function
		if strings.HasPrefix(fn, "package-operator.run/") && !strings.Contains(fn, "/verifsim/") ||
			strings.HasPrefix(fn, "pkg.package-operator.run/") {
			fn = strings.TrimPrefix(fn, "package-operator.run/")
			return fn
		}
		if !more {
			return "?"
		}
	}
}

func (c *Client) newReq(ctx context.Context, verb string, gvk schema.GroupVersionKind, ns, name string) *Req {
	k, err := c.cl.Kind(gvk.GroupKind())
	if err == nil && !k.Namespaced {
		ns = ""
	}
	r := &Req{Cluster: c.cl.Name, Verb: verb, GVK: gvk, NS: ns, Name: name, Client: c.name, Site: callSite()}
	return r
}

func (c *Client) Get(ctx context.Context, key client.ObjectKey, obj client.Object, _ ...client.GetOption) error {
	_, gvk, err := toObj(obj)
	if err != nil {
		return err
	}
	r := c.newReq(ctx, "get", gvk, key.Namespace, key.Name)
	_, isUnstructured := obj.(*unstructured.Unstructured)
	r.Cached = c.cached && !isUnstructured
	return c.do2(ctx, r, func() (store.Obj, error) {
		if r.Cached {
			return c.p.viewGet(c.cl, gvk.GroupKind(), r.NS, r.Name)
		}
		return c.cl.Get(gvk.GroupKind(), r.NS, r.Name)
	}, func(res store.Obj) error { return fromObj(res, obj, r.Cached) })
}

func listGVK(list client.ObjectList) (schema.GroupVersionKind, error) {
	gvk, err := apiutil.GVKForObject(list, Scheme)
	if err != nil {
		return gvk, err
	}
	gvk.Kind = strings.TrimSuffix(gvk.Kind, "List")
	return gvk, nil
}

func setList(list client.ObjectList, gvk schema.GroupVersionKind, items []store.Obj, cached bool) error {
	if ul, ok := list.(*unstructured.UnstructuredList); ok {
		ul.Items = nil
		for _, it := range items {
			ul.Items = append(ul.Items, unstructured.Unstructured{Object: it})
		}
		return nil
	}
	objs := make([]k8sruntime.Object, 0, len(items))
	for _, it := range items {
		o, err := Scheme.New(gvk)
		if err != nil {
			return err
		}
		if err := fromObj(it, o, true); err != nil {
			return err
		}
		if !cached {
			o.GetObjectKind().SetGroupVersionKind(schema.GroupVersionKind{})
		}
		objs = append(objs, o)
	}
	return meta.SetList(list, objs)
}

func (c *Client) List(ctx context.Context, list client.ObjectList, opts ...client.ListOption) error {
	gvk, err := listGVK(list)
	if err != nil {
		return err
	}
	lo := client.ListOptions{}
	lo.ApplyOptions(opts)
	r := c.newReq(ctx, "list", gvk, lo.Namespace, "")
	_, isUnstructured := list.(*unstructured.UnstructuredList)
	r.Cached = c.cached && !isUnstructured
	var sel labels.Selector = lo.LabelSelector
	return c.do2(ctx, r, func() (store.Obj, error) {
		var items []store.Obj
		if r.Cached {
			if _, err := c.cl.Kind(gvk.GroupKind()); err != nil {
				return nil, err
			}
			items = store.ListFrom(c.p.view(c.cl).objs, gvk.GroupKind(), lo.Namespace, sel)
		} else {
			var err error
			items, err = c.cl.List(gvk.GroupKind(), lo.Namespace, sel)
			if err != nil {
				return nil, err
			}
		}
		r.Items = items
		return nil, nil
	}, func(store.Obj) error { return setList(list, gvk, r.Items, r.Cached) })
}

func hasDry(d []string) bool { return len(d) > 0 }

func (c *Client) Create(ctx context.Context, obj client.Object, opts ...client.CreateOption) error {
	o, gvk, err := toObj(obj)
	if err != nil {
		return err
	}
	co := client.CreateOptions{}
	co.ApplyOptions(opts)
	r := c.newReq(ctx, "create", gvk, obj.GetNamespace(), obj.GetName())
	r.DryRun = hasDry(co.DryRun)
	r.Body = o
	return c.do2(ctx, r, func() (store.Obj, error) { return c.cl.Create(o, r.DryRun) },
		func(res store.Obj) error { return fromObj(res, obj, false) })
}

func (c *Client) Update(ctx context.Context, obj client.Object, opts ...client.UpdateOption) error {
	o, gvk, err := toObj(obj)
	if err != nil {
		return err
	}
	uo := client.UpdateOptions{}
	uo.ApplyOptions(opts)
	r := c.newReq(ctx, "update", gvk, obj.GetNamespace(), obj.GetName())
	r.DryRun = hasDry(uo.DryRun)
	r.Body = o
	r.PreRV = obj.GetResourceVersion()
	return c.do2(ctx, r, func() (store.Obj, error) { return c.cl.Update(o, r.DryRun) },
		func(res store.Obj) error { return fromObj(res, obj, false) })
}

func (c *Client) Delete(ctx context.Context, obj client.Object, opts ...client.DeleteOption) error {
	_, gvk, err := toObj(obj)
	if err != nil {
		return err
	}
	do := client.DeleteOptions{}
	do.ApplyOptions(opts)
	r := c.newReq(ctx, "delete", gvk, obj.GetNamespace(), obj.GetName())
	r.DryRun = hasDry(do.DryRun)
	if do.Preconditions != nil {
		if do.Preconditions.UID != nil {
			r.PreUID = string(*do.Preconditions.UID)
		}
		if do.Preconditions.ResourceVersion != nil {
			r.PreRV = *do.Preconditions.ResourceVersion
		}
	}
	if do.PropagationPolicy != nil {
		r.Propag = string(*do.PropagationPolicy)
	}
	return c.do2(ctx, r, func() (store.Obj, error) {
		_, err := c.cl.Delete(gvk.GroupKind(), r.NS, r.Name, store.DeleteOpts{UID: r.PreUID, RV: r.PreRV, Propagation: r.Propag, Dry: r.DryRun})
		return nil, err
	}, nil)
}

func (c *Client) DeleteAllOf(ctx context.Context, obj client.Object, opts ...client.DeleteAllOfOption) error {
	return errors.New("simulated client: DeleteAllOf not supported")
}

func patchKind(t types.PatchType) string {
	switch t {
	case types.MergePatchType:
		return "merge"
	case types.ApplyPatchType:
		return "apply"
	case types.JSONPatchType:
		return "json"
	case types.StrategicMergePatchType:
		return "strategic"
	}
	return string(t)
}

func (c *Client) patch(ctx context.Context, obj client.Object, p client.Patch, sub string, po client.PatchOptions) error {
	_, gvk, err := toObj(obj)
	if err != nil {
		return err
	}
	data, err := p.Data(obj)
	if err != nil {
		return err
	}
	r := c.newReq(ctx, "patch", gvk, obj.GetNamespace(), obj.GetName())
	r.DryRun = hasDry(po.DryRun)
	r.Patch = patchKind(p.Type())
	r.Force = po.Force != nil && *po.Force
	r.Manager = po.FieldManager
	body := store.Obj{}
	if r.Patch != "json" {
		_ = unmarshalJSON(data, &body)
	}
	r.Body = body
	r.PreRV = store.Str(body, "metadata", "resourceVersion")
	return c.do2(ctx, r, func() (store.Obj, error) {
		return c.cl.Patch(gvk.GroupKind(), r.NS, r.Name, data, store.PatchOpts{
			Type: r.Patch, Force: r.Force, FieldManager: r.Manager, Dry: r.DryRun, Status: sub == "status",
		})
	}, func(res store.Obj) error { return fromObj(res, obj, false) })
}

func (c *Client) Patch(ctx context.Context, obj client.Object, p client.Patch, opts ...client.PatchOption) error {
	po := client.PatchOptions{}
	po.ApplyOptions(opts)
	return c.patch(ctx, obj, p, "", po)
}

type subWriter struct {
	c   *Client
	sub string
}

func (s *subWriter) Get(ctx context.Context, obj client.Object, sr client.Object, _ ...client.SubResourceGetOption) error {
	return errors.New("simulated client: sub-resource get not supported")
}

func (s *subWriter) Create(ctx context.Context, obj client.Object, sr client.Object, _ ...client.SubResourceCreateOption) error {
	return errors.New("simulated client: sub-resource create not supported")
}

func (s *subWriter) Update(ctx context.Context, obj client.Object, opts ...client.SubResourceUpdateOption) error {
	if s.sub != "status" {
		return errors.New("simulated client: only the status sub-resource is supported")
	}
	c := s.c
	o, gvk, err := toObj(obj)
	if err != nil {
		return err
	}
	r := c.newReq(ctx, "update-status", gvk, obj.GetNamespace(), obj.GetName())
	r.Body = o
	r.PreRV = obj.GetResourceVersion()
	return c.do2(ctx, r, func() (store.Obj, error) { return c.cl.UpdateStatus(o) },
		func(res store.Obj) error { return fromObj(res, obj, false) })
}

func (s *subWriter) Patch(ctx context.Context, obj client.Object, p client.Patch, opts ...client.SubResourcePatchOption) error {
	spo := client.SubResourcePatchOptions{}
	spo.ApplyOptions(opts)
	return s.c.patch(ctx, obj, p, s.sub, spo.PatchOptions)
}
