package cs

import (
	"context"
	"fmt"
	"sort"
	"time"

	"github.com/go-logr/logr"
	apierrors "k8s.io/apimachinery/pkg/api/errors"
	"k8s.io/apimachinery/pkg/apis/meta/v1/unstructured"
	"k8s.io/apimachinery/pkg/labels"
	k8sruntime "k8s.io/apimachinery/pkg/runtime"
	"k8s.io/apimachinery/pkg/runtime/schema"
	toolscache "k8s.io/client-go/tools/cache"
	"k8s.io/client-go/util/workqueue"
	"sigs.k8s.io/controller-runtime/pkg/client"
	"sigs.k8s.io/controller-runtime/pkg/handler"
	"sigs.k8s.io/controller-runtime/pkg/predicate"
	"sigs.k8s.io/controller-runtime/pkg/reconcile"
	"sigs.k8s.io/controller-runtime/pkg/source"

	"package-operator.run/internal/constants"
	"package-operator.run/internal/dynamiccache"
	"package-operator.run/internal/packages/verifsim/store"
)

// ---- process view (lagging informer caches) -----------------------------------

type view struct {
	seen int // number of events of the cluster log already delivered
	objs map[store.Key]store.Obj
}

// Process is one PKO binary (manager or remote-phase-manager).
type Process struct {
	w     *World
	Name  string
	Gen   int // incarnation, bumped by crash/restart
	Dead  bool
	Ctrls []*Controller

	views     map[string]*view
	informers map[string]map[schema.GroupKind]*fakeInformer // cluster -> kind -> mgr cache informer
	DynCache  *dynamiccache.Cache
	dynMap    *simInformerMap
	pending   []func() // handler dispatches deferred to the scheduler goroutine
	build     func(p *Process)
	ctx       context.Context
	cancel    context.CancelFunc
	partition int // remaining steps during which every request of this process fails
	extra     map[string]any
}

func (p *Process) view(cl *store.Cluster) *view {
	v := p.views[cl.Name]
	if v == nil {
		v = &view{objs: map[store.Key]store.Obj{}}
		// initial list: the view starts at the store head
		for k, o := range cl.Objs {
			v.objs[k] = store.Copy(o)
		}
		v.seen = len(cl.Log)
		p.views[cl.Name] = v
	}
	return v
}

func (p *Process) viewGet(cl *store.Cluster, gk schema.GroupKind, ns, name string) (store.Obj, error) {
	k, err := cl.Kind(gk)
	if err != nil {
		return nil, err
	}
	if !k.Namespaced {
		ns = ""
	}
	o, ok := p.view(cl).objs[store.Key{Group: gk.Group, Kind: gk.Kind, Namespace: ns, Name: name}]
	if !ok {
		return nil, apierrors.NewNotFound(schema.GroupResource{Group: gk.Group, Resource: gk.Kind}, name)
	}
	return store.Copy(o), nil
}

// lag is the number of undelivered events.
func (p *Process) lag(cl *store.Cluster) int { return len(cl.Log) - p.view(cl).seen }

// advance applies the next event to the view and returns the dispatch closure.
func (p *Process) advance(cl *store.Cluster) func() {
	v := p.view(cl)
	ev := cl.Log[v.seen]
	v.seen++
	if p.w.Cfg.Trace {
		p.w.Tracef("  event %s %s reaches %s", ev.Type, ev.Key, p.Name)
	}
	switch ev.Type {
	case "DELETED":
		delete(v.objs, ev.Key)
	default:
		v.objs[ev.Key] = store.Copy(ev.After)
	}
	return func() { p.dispatch(cl, ev) }
}

// Deliver advances the view by one event and runs the event handlers.
func (p *Process) Deliver(cl *store.Cluster) {
	p.advance(cl)()
}

// syncToHead applies all pending events to the view; handler dispatch is
// deferred to the scheduler goroutine (real informers dispatch asynchronously).
func (p *Process) syncToHead(cl *store.Cluster) {
	for p.lag(cl) > 0 {
		p.pending = append(p.pending, p.advance(cl))
	}
}

func (p *Process) flushPending() {
	for len(p.pending) > 0 {
		f := p.pending[0]
		p.pending = p.pending[1:]
		f()
	}
}

func uns(o store.Obj) *unstructured.Unstructured {
	if o == nil {
		return nil
	}
	return &unstructured.Unstructured{Object: store.Copy(o)}
}

func (p *Process) dispatch(cl *store.Cluster, ev store.Event) {
	if p.Dead {
		return
	}
	gk := ev.Key.GK()
	var infs []*fakeInformer
	if m := p.informers[cl.Name]; m != nil {
		if inf := m[gk]; inf != nil {
			infs = append(infs, inf)
		}
	}
	if p.dynMap != nil && p.dynMap.cl == cl {
		if inf := p.dynMap.informers[gk]; inf != nil {
			infs = append(infs, inf)
		}
	}
	for _, inf := range infs {
		inf.dispatch(ev)
	}
}

// ---- fake informer -------------------------------------------------------------

type fakeInformer struct {
	toolscache.SharedIndexInformer // nil; only the methods below are ever called
	p                              *Process
	cl                             *store.Cluster
	gk                             schema.GroupKind
	sel                            labels.Selector
	handlers                       []toolscache.ResourceEventHandler
	stopped                        bool
}

type fakeReg struct{}

func (fakeReg) HasSynced() bool { return true }

func (f *fakeInformer) matches(o store.Obj) bool {
	if o == nil {
		return false
	}
	if f.sel == nil || f.sel.Empty() {
		return true
	}
	return f.sel.Matches(labels.Set(store.Labels(o)))
}

func (f *fakeInformer) AddEventHandler(h toolscache.ResourceEventHandler) (toolscache.ResourceEventHandlerRegistration, error) {
	f.handlers = append(f.handlers, h)
	// replay the current cache contents as initial adds (asynchronously)
	v := f.p.view(f.cl)
	for _, k := range sortedKeys(v.objs) {
		if k.GK() != f.gk {
			continue
		}
		o := v.objs[k]
		if !f.matches(o) {
			continue
		}
		obj := uns(o)
		f.p.pending = append(f.p.pending, func() {
			if !f.stopped {
				h.OnAdd(obj, true)
			}
		})
	}
	return fakeReg{}, nil
}

func (f *fakeInformer) AddEventHandlerWithResyncPeriod(h toolscache.ResourceEventHandler, _ time.Duration) (toolscache.ResourceEventHandlerRegistration, error) {
	return f.AddEventHandler(h)
}
func (f *fakeInformer) RemoveEventHandler(toolscache.ResourceEventHandlerRegistration) error {
	return nil
}
func (f *fakeInformer) AddIndexers(toolscache.Indexers) error { return nil }
func (f *fakeInformer) HasSynced() bool                       { return true }
func (f *fakeInformer) IsStopped() bool                       { return f.stopped }

func (f *fakeInformer) dispatch(ev store.Event) {
	if f.stopped {
		return
	}
	bm, am := f.matches(ev.Before), ev.Type != "DELETED" && f.matches(ev.After)
	for _, h := range f.handlers {
		switch {
		case !bm && am:
			h.OnAdd(uns(ev.After), false)
		case bm && am:
			h.OnUpdate(uns(ev.Before), uns(ev.After))
		case bm && !am:
			if ev.Type == "DELETED" {
				h.OnDelete(uns(ev.After))
			} else {
				h.OnDelete(uns(ev.Before))
			}
		}
	}
}

// mgrInformer returns (creating on demand) the manager-cache informer of a kind.
func (p *Process) mgrInformer(cl *store.Cluster, gk schema.GroupKind) *fakeInformer {
	m := p.informers[cl.Name]
	if m == nil {
		m = map[schema.GroupKind]*fakeInformer{}
		p.informers[cl.Name] = m
	}
	inf := m[gk]
	if inf == nil {
		inf = &fakeInformer{p: p, cl: cl, gk: gk}
		m[gk] = inf
	}
	return inf
}

// ---- scripted informer map for the real dynamiccache.Cache ----------------------

type simInformerMap struct {
	p         *Process
	cl        *store.Cluster
	informers map[schema.GroupKind]*fakeInformer
	Created   int
	Deleted   int
}

var cacheSelector = labels.SelectorFromSet(labels.Set{constants.DynamicCacheLabel: "True"})

func (m *simInformerMap) Get(ctx context.Context, gvk schema.GroupVersionKind, _ k8sruntime.Object) (toolscache.SharedIndexInformer, client.Reader, error) {
	gk := gvk.GroupKind()
	inf := m.informers[gk]
	if inf == nil {
		w := m.p.w
		if _, err := m.cl.Kind(gk); err != nil {
			return nil, nil, err
		}
		if w.faultsOn() && w.Cfg.Faults["informer-start"] && w.Sch.Chance(1, 12, "informer-start-failure") {
			w.Stats.Fault("informer-start-failure")
			w.Tracef("FAULT informer-start-failure %s in %s", gk, m.p.Name)
			if a := actorFrom(ctx); a != nil && a.pass != nil {
				a.pass.Faulted = true
			}
			return nil, nil, fmt.Errorf("simulated: failed waiting for %s informer to sync", gvk)
		}
		inf = &fakeInformer{p: m.p, cl: m.cl, gk: gk, sel: cacheSelector}
		m.informers[gk] = inf
		m.Created++
		// the initial LIST of a new informer is at least as fresh as now: bring
		// the whole view to the head (a realisable state: everything caught up).
		m.p.syncToHead(m.cl)
	}
	return inf, &dynReader{m: m, gk: gk}, nil
}

func (m *simInformerMap) Delete(_ context.Context, gvk schema.GroupVersionKind) error {
	gk := gvk.GroupKind()
	if inf := m.informers[gk]; inf != nil {
		inf.stopped = true
		delete(m.informers, gk)
		m.Deleted++
	}
	return nil
}

// dynReader serves dynamic-cache reads from the process view (label-filtered).
// These are in-memory reads: recorded in the history, never parked or faulted.
type dynReader struct {
	m  *simInformerMap
	gk schema.GroupKind
}

func (d *dynReader) Get(ctx context.Context, key client.ObjectKey, obj client.Object, _ ...client.GetOption) error {
	w := d.m.p.w
	gvk := obj.GetObjectKind().GroupVersionKind()
	r := &Req{Cluster: d.m.cl.Name, Verb: "get", GVK: gvk, NS: key.Namespace, Name: key.Name, Cached: true, Client: "dyncache", Site: callSite()}
	if k, err := d.m.cl.Kind(d.gk); err == nil && !k.Namespaced {
		r.NS = ""
	}
	res, err := d.m.p.viewGet(d.m.cl, d.gk, r.NS, r.Name)
	if err == nil && !cacheSelector.Matches(labels.Set(store.Labels(res))) {
		err = apierrors.NewNotFound(schema.GroupResource{Group: d.gk.Group, Resource: d.gk.Kind}, key.Name)
	}
	if err == nil {
		r.Returned = res
		err = fromObj(res, obj, true)
	}
	r.Err = err
	w.record(actorFrom(ctx), r)
	return err
}

func (d *dynReader) List(ctx context.Context, list client.ObjectList, opts ...client.ListOption) error {
	lo := client.ListOptions{}
	lo.ApplyOptions(opts)
	items := store.ListFrom(d.m.p.view(d.m.cl).objs, d.gk, lo.Namespace, cacheSelector)
	if lo.LabelSelector != nil {
		kept := items[:0]
		for _, it := range items {
			if lo.LabelSelector.Matches(labels.Set(store.Labels(it))) {
				kept = append(kept, it)
			}
		}
		items = kept
	}
	gvk, _ := listGVK(list)
	return setList(list, gvk, items, true)
}

// ---- work queue -----------------------------------------------------------------

// Queue implements workqueue.TypedRateLimitingInterface with set semantics;
// which key is processed next is the scheduler's decision.
type Queue struct {
	w          *World
	c          *Controller
	dirty      map[reconcile.Request]bool
	processing map[reconcile.Request]bool
	failures   map[reconcile.Request]int
}

var _ workqueue.TypedRateLimitingInterface[reconcile.Request] = (*Queue)(nil)

func newQueue(w *World, c *Controller) *Queue {
	return &Queue{w: w, c: c, dirty: map[reconcile.Request]bool{}, processing: map[reconcile.Request]bool{}, failures: map[reconcile.Request]int{}}
}

func (q *Queue) Add(r reconcile.Request) {
	if q.c.Proc.Dead {
		return
	}
	if q.w.Cfg.Trace && !q.dirty[r] {
		q.w.Tracef("enqueue %s %s", q.c.Name, r)
	}
	q.dirty[r] = true
}
func (q *Queue) Len() int { return len(q.dirty) }
func (q *Queue) Get() (reconcile.Request, bool) {
	panic("sim queue: Get is driven by the scheduler")
}
func (q *Queue) Done(r reconcile.Request)            { delete(q.processing, r) }
func (q *Queue) ShutDown()                           {}
func (q *Queue) ShutDownWithDrain()                  {}
func (q *Queue) ShuttingDown() bool                  { return false }
func (q *Queue) Forget(r reconcile.Request)          { delete(q.failures, r) }
func (q *Queue) NumRequeues(r reconcile.Request) int { return q.failures[r] }

func (q *Queue) AddAfter(r reconcile.Request, d time.Duration) {
	if d <= 0 {
		q.Add(r)
		return
	}
	proc, gen := q.c.Proc, q.c.Proc.Gen
	q.w.After(d, fmt.Sprintf("requeue %s %s", q.c.Name, r), func() {
		if !proc.Dead && proc.Gen == gen {
			q.Add(r)
		}
	})
}

func (q *Queue) AddRateLimited(r reconcile.Request) {
	n := q.failures[r]
	q.failures[r] = n + 1
	// controller-runtime default: per-item exponential 5ms .. 1000s
	d := 5 * time.Millisecond
	for i := 0; i < n && d < 1000*time.Second; i++ {
		d *= 2
	}
	if d > 1000*time.Second {
		d = 1000 * time.Second
	}
	q.AddAfter(r, d)
}

// Runnable returns the keys that may be started now, in canonical order.
func (q *Queue) Runnable() []reconcile.Request {
	out := make([]reconcile.Request, 0, len(q.dirty))
	for r := range q.dirty {
		if !q.processing[r] {
			out = append(out, r)
		}
	}
	sort.Slice(out, func(i, j int) bool { return out[i].String() < out[j].String() })
	return out
}

// ---- controller ------------------------------------------------------------------

type Controller struct {
	Name    string
	Proc    *Process
	Rec     reconcile.Reconciler
	Q       *Queue
	Workers []*Actor
}

// watch registers an event source the way ctrl.Builder does.
func (c *Controller) watch(cl *store.Cluster, gk schema.GroupKind, h handler.EventHandler, preds ...predicate.Predicate) {
	src := source.Informer{Informer: c.Proc.mgrInformer(cl, gk), Handler: h, Predicates: preds}
	if err := src.Start(c.Proc.ctx, c.Q); err != nil {
		panic(err)
	}
}

func (p *Process) addController(name string, rec reconcile.Reconciler, workers int) *Controller {
	c := &Controller{Name: name, Proc: p, Rec: rec}
	c.Q = newQueue(p.w, c)
	for i := 0; i < workers; i++ {
		a := &Actor{ID: fmt.Sprintf("%s/%s#%d", p.Name, name, i), Proc: p, Ctrl: c, w: p.w, resume: make(chan resumeMsg)}
		c.Workers = append(c.Workers, a)
		go a.loop()
	}
	p.Ctrls = append(p.Ctrls, c)
	return c
}

func (p *Process) client(cl *store.Cluster, name string, cached bool) *Client {
	return &Client{w: p.w, p: p, cl: cl, name: name, cached: cached}
}

var discardLog = logr.Discard()

// newProcess builds a process; build wires its controllers.
func (w *World) newProcess(name string, build func(p *Process)) *Process {
	p := &Process{w: w, Name: name, build: build}
	w.Procs = append(w.Procs, p)
	p.start()
	return p
}

func (p *Process) start() {
	p.Dead = false
	p.views = map[string]*view{}
	p.informers = map[string]map[schema.GroupKind]*fakeInformer{}
	p.Ctrls = nil
	p.pending = nil
	p.extra = map[string]any{}
	p.ctx, p.cancel = context.WithCancel(context.Background())
	p.build(p)
	// controller start: every existing object of a watched kind produces an
	// initial add (done by AddEventHandler above through p.pending).
	p.flushPending()
}

// newDynCache builds the real dynamic cache over the scripted informer map.
func (p *Process) newDynCache(cl *store.Cluster) *dynamiccache.Cache {
	p.dynMap = &simInformerMap{p: p, cl: cl, informers: map[schema.GroupKind]*fakeInformer{}}
	p.DynCache = dynamiccache.NewCacheForSim(Scheme, p.dynMap)
	return p.DynCache
}

// startDynSource registers a controller's dynamic-cache source.
func (c *Controller) startDynSource(src source.Source) {
	if err := src.Start(c.Proc.ctx, c.Q); err != nil {
		panic(err)
	}
}

// Crash kills the process: parked goroutines are poisoned, all in-memory state
// is dropped, and a new incarnation is built after delay.
func (w *World) Crash(p *Process, delay time.Duration) {
	w.Stats.Fault("crash")
	w.Tracef("CRASH %s (restart in %v)", p.Name, delay)
	p.Dead = true
	p.Gen++
	p.cancel()
	for _, c := range p.Ctrls {
		for _, a := range c.Workers {
			w.zombies = append(w.zombies, a)
			a.kill()
		}
	}
	if w.sticky != nil && w.sticky.Proc == p {
		w.sticky = nil
	}
	w.waitSettled()
	gen := p.Gen
	w.After(delay, "restart "+p.Name, func() {
		if p.Gen == gen && p.Dead {
			w.Tracef("RESTART %s", p.Name)
			p.start()
		}
	})
}
