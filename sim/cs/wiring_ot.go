package cs

import (
	"time"

	"sigs.k8s.io/controller-runtime/pkg/handler"

	corev1alpha1 "package-operator.run/apis/core/v1alpha1"
	"package-operator.run/internal/apis/manifests"
	"package-operator.run/internal/controllers/objecttemplate"
	"package-operator.run/internal/dynamiccache"
)

// buildTemplateControllers wires the (Cluster)ObjectTemplate controllers.
func buildTemplateControllers(p *Process, mgr, unc *Client, dc *dynamiccache.Cache) {
	w := p.w
	cl := w.Mgmt
	cfg := objecttemplate.ControllerConfig{OptionalResourceRetryInterval: 60 * time.Second, ResourceRetryInterval: 30 * time.Second}
	env := &manifests.PackageEnvironment{Kubernetes: manifests.PackageEnvironmentKubernetes{Version: "1.27.3"}}
	{
		rec := objecttemplate.NewObjectTemplateController(mgr, unc, discardLog, dc, Scheme, w.Mapper, cfg)
		rec.SetEnvironment(env)
		c := p.addController("ObjectTemplate", rec, 1)
		c.watch(cl, gk("ObjectTemplate"), &handler.EnqueueRequestForObject{})
		c.startDynSource(dc.Source(dynamiccache.NewEnqueueWatchingObjects(dc, &corev1alpha1.ObjectTemplate{}, Scheme)))
	}
	{
		rec := objecttemplate.NewClusterObjectTemplateController(mgr, unc, discardLog, dc, Scheme, w.Mapper, cfg)
		rec.SetEnvironment(env)
		c := p.addController("ClusterObjectTemplate", rec, 1)
		c.watch(cl, gk("ClusterObjectTemplate"), &handler.EnqueueRequestForObject{})
		c.startDynSource(dc.Source(dynamiccache.NewEnqueueWatchingObjects(dc, &corev1alpha1.ClusterObjectTemplate{}, Scheme)))
	}
}
