package cs

import (
	"fmt"
	"sort"
	"strings"
	"time"

	"k8s.io/apimachinery/pkg/types"
	"sigs.k8s.io/controller-runtime/pkg/reconcile"

	"package-operator.run/internal/packages/verifsim/choice"
	"package-operator.run/internal/packages/verifsim/store"
)

func init() {
	Plans["C10"] = planC10
}

// c10Scenario builds the scenario of a C10 run; called identically for the
// disturbed world and (on a replay of the same scenario stream) the reference.
func c10Scenario(w *World) {
	s := w.Scn
	w.setupCommon(5)
	w.drawFaultMix("err-before", "lost-response", "crash", "compaction", "duplicate", "partition", "informer-start")
	w.Cfg.Faults["drift"] = !w.Cfg.FaultFree
	w.Cfg.UserOpsAtQuiescence = true
	w.Cfg.Ndist = 30 + s.Intn(200, "ndist")
	switch s.Intn(4, "family") {
	case 2:
		w.Cfg.Packages = true
		pe := s.Bool("pull-errors") // always drawn: the reference run must consume the same choices
		w.Cfg.Faults["pull-error"] = !w.Cfg.FaultFree && pe
		w.Scenario = GenPKG(w, 3, "no-error-loops", "final-delete")
	case 3:
		w.Cfg.Templates = true
		w.Scenario = GenOT(w, 4)
	case 0:
		w.Scenario = GenOS(w, OSProfile{MaxSets: 3, Delegation: true, Lifecycle: true, LateCreate: true, AllLate: true, CompletePrev: true, OldestFirst: true, Intruder: "granular", DriftOnly: true, Finalizers: true})
	case 1:
		w.Scenario = GenOD(w, ODProfile{MaxEdits: 4, Pause: true, Limits: true, Delegation: s.Bool("delegation"), NeverReady: s.Chance(1, 3, "never-ready"), FinalDelete: true})
	}
	for _, a := range w.agents {
		if wl, ok := a.(*WorkloadAgent); ok {
			wl.Convergent = true
			if w.Scenario.Family != "S-OS" {
				// Archival by a deployment is a one-way decision that legitimately depends on
				// whether a revision is available at that moment; a transient status regression
				// would change the outcome without anything having failed to converge.
				wl.Budget = 0
			}
		}
	}
}

// probePasses runs every controller once on every existing key of its kind and
// reports whether the store changed.
func (w *World) probePasses(budget int) (changed bool, ok bool) {
	ver := w.storeVersion()
	for _, p := range w.Procs {
		if p.Dead {
			continue
		}
		for _, c := range p.Ctrls {
			for _, cl := range w.Clusters() {
				if _, used := p.views[cl.Name]; !used {
					continue
				}
				for _, k := range sortedKeys(cl.Objs) {
					if k.Group == PKOGroup && k.Kind == c.Name {
						c.Q.Add(reconcile.Request{NamespacedName: types.NamespacedName{Namespace: k.Namespace, Name: k.Name}})
					}
				}
			}
		}
	}
	steps := 0
	for !w.onlyTime() {
		if !w.Step() {
			break
		}
		steps++
		if steps > budget {
			return w.storeVersion() != ver, false
		}
	}
	return w.storeVersion() != ver, true
}

// c10OlderRevisionKeys lists the projection keys of older revisions (and of what only they or
// their phase objects control) of every deployment whose newest revision is unavailable in
// both worlds, plus the deployment itself.
func c10OlderRevisionKeys(a, b *World) map[string]bool {
	out := map[string]bool{}
	older := map[string]bool{} // uid of older ObjectSets and their phase objects, both worlds
	newestUnavailable := func(w *World, od store.Obj) (bool, []store.Obj) {
		sets := setsOfDeployment(w.Mgmt.Objs, od)
		var newest store.Obj
		for _, st := range sets {
			if newest == nil || store.Int(st, "status", "revision") > store.Int(newest, "status", "revision") {
				newest = st
			}
		}
		if newest == nil || CondTrue(newest, "Available") {
			return false, nil
		}
		var old []store.Obj
		for _, st := range sets {
			if st != nil && store.Str(st, "metadata", "uid") != store.Str(newest, "metadata", "uid") {
				old = append(old, st)
			}
		}
		return true, old
	}
	for k, od := range a.Mgmt.Objs {
		if k.Group != PKOGroup || !isODKind(k.Kind) {
			continue
		}
		odb, ok := b.Mgmt.Objs[k]
		if !ok {
			continue
		}
		ua, olda := newestUnavailable(a, od)
		ub, oldb := newestUnavailable(b, odb)
		if !ua || !ub {
			continue
		}
		out["mgmt "+k.String()] = true
		for _, pair := range []struct {
			w   *World
			old []store.Obj
		}{{a, olda}, {b, oldb}} {
			for _, st := range pair.old {
				out["mgmt "+store.KeyOf(st).String()] = true
				older[store.Str(st, "metadata", "uid")] = true
				for pk, po := range pair.w.Mgmt.Objs {
					if pk.Group == PKOGroup && isPhaseKind(pk.Kind) && IsControlledBy(po, st, "native") {
						out["mgmt "+pk.String()] = true
						older[store.Str(po, "metadata", "uid")] = true
					}
				}
			}
		}
	}
	if len(older) == 0 {
		return out
	}
	for _, w := range []*World{a, b} {
		for _, cl := range w.Clusters() {
			strategy := "native"
			if cl.Name == "hosted" {
				strategy = "annotation"
			}
			for k, o := range cl.Objs {
				if k.Group == PKOGroup {
					continue
				}
				for _, c := range Controllers(o, strategy) {
					if older[c.UID] {
						out[cl.Name+" "+k.String()] = true
					}
				}
			}
		}
	}
	return out
}

// c10SecondReference replays the scenario in a fresh undisturbed world under a random fair
// schedule up to (and including) epoch and returns its projection.
func c10SecondReference(w *World, spec RunSpec, scnPrefix []uint32, epoch int) (map[string]string, bool) {
	cfg := &Config{Property: "C10-ref2", StopOn: "none", FaultFree: true, Faults: map[string]bool{}, NoFaultWeight: 200, MaxSteps: w.Cfg.MaxSteps, CalmBudget: w.Cfg.CalmBudget}
	ref2 := NewWorld(cfg, choice.NewGen(spec.Seed, fmt.Sprintf("C10-ref2/%d", spec.Index)), choice.NewReplay(scnPrefix))
	c10Scenario(ref2)
	ref2.Monitors = nil
	ref2.Cfg.FaultBudget = 0
	for k := range ref2.Cfg.Faults {
		delete(ref2.Cfg.Faults, k)
	}
	ref2.fairRandom = true
	defer ref2.Shutdown()
	ref2.StartProcesses()
	for e := 0; e <= epoch; e++ {
		if e > 0 {
			ref2.applyNextUserOp()
		}
		if !ref2.settleWithResync() {
			return nil, false
		}
	}
	for round := 0; round < 3; round++ {
		time.Sleep(120 * time.Second)
		if changed, _ := ref2.probePasses(ref2.Cfg.CalmBudget); !changed {
			break
		}
		ref2.Settle(ref2.Cfg.CalmBudget)
	}
	return ref2.Projection(), true
}

func planC10(w *World, spec RunSpec) {
	c10Scenario(w)
	// reference world: same scenario stream, no faults, fair scheduler throughout
	scnPrefix := append([]uint32{}, w.Scn.Rec...)
	refCfg := &Config{Property: "C10-ref", StopOn: "none", FaultFree: true, Faults: map[string]bool{}, NoFaultWeight: 200, MaxSteps: w.Cfg.MaxSteps, CalmBudget: w.Cfg.CalmBudget}
	ref := NewWorld(refCfg, choice.NewReplay(nil), choice.NewReplay(scnPrefix))
	c10Scenario(ref)
	ref.Monitors = nil
	ref.Cfg.FaultBudget = 0
	for k := range ref.Cfg.Faults {
		delete(ref.Cfg.Faults, k)
	}
	defer ref.Shutdown()
	refCfg.Trace = w.Cfg.Trace
	defer func() {
		if w.Cfg.Trace && len(w.Viol) > 0 {
			w.trace = append(w.trace, "---- undisturbed reference run of the same scenario ----")
			for _, l := range ref.trace {
				w.trace = append(w.trace, "REF "+l)
			}
		}
	}()

	if spec.Mode == "sweep" || spec.Mode == "sweep-base" {
		w.Cfg.FaultBudget = 0
		for k := range w.Cfg.Faults {
			delete(w.Cfg.Faults, k)
		}
		w.Cfg.Ndist = 0
		if spec.Mode == "sweep" {
			w.Cfg.SweepAt, w.Cfg.SweepKind = spec.SweepAt, spec.SweepKind
		} else {
			w.Cfg.SweepAt, w.Cfg.SweepKind = -1, "count"
		}
	}

	ref.StartProcesses()
	w.StartProcesses()
	nOps := len(w.Scenario.UserOps)
	for epoch := 0; epoch <= nOps; epoch++ {
		w.epoch = epoch
		if epoch > 0 {
			ref.applyNextUserOp()
			w.applyNextUserOp()
		}
		if !ref.settleWithResync() {
			// the undisturbed run itself does not settle: nothing to compare against
			w.Stats.Inconclusive = true
			w.Stats.Probe("c10-reference-not-quiescent")
			return
		}
		refProj := ref.Projection()
		if w.Cfg.Ndist > 0 {
			w.Disturb(w.Cfg.Ndist)
		}
		if w.stopNow {
			return
		}
		settled := w.settleWithResync()
		if w.stopNow {
			return
		}
		for _, m := range w.Monitors {
			if m.ID() == "C10" {
				m.(*MonC10).touch()
			}
		}
		if !settled {
			tail := ""
			for i := len(w.Hist) - 6; i < len(w.Hist); i++ {
				if i >= 0 {
					tail += w.Hist[i].String() + "; "
				}
			}
			w.Report(Violation{Property: "C10", Rule: "no-quiescence", Sig: w.lastBusySite(), Msg: fmt.Sprintf("epoch %d: no quiescence within %d calm steps after disturbances stopped; tail: %s", epoch, w.Cfg.CalmBudget, tail)})
			return
		}
		// At quiescence further reconciles must change nothing. Work that only a
		// resync completes is latency, not flapping: a changing extra pass is
		// followed by another settle, and only persistent change is reported.
		idle := false
		for round := 0; round < 3 && !idle; round++ {
			// let more simulated time pass than any success delay before the extra passes: a rollout that
			// only completed during the resync round above still has its delay to sit out
			time.Sleep(120 * time.Second)
			changed, ok := w.probePasses(w.Cfg.CalmBudget)
			if !ok || w.stopNow {
				break
			}
			if !changed {
				idle = true
				break
			}
			w.Stats.Probe("c10-extra-pass-changed-store")
			if !w.Settle(w.Cfg.CalmBudget) {
				break
			}
		}
		if w.stopNow {
			return
		}
		if !idle {
			last := ""
			for i := len(w.Hist) - 1; i >= 0; i-- {
				if w.Hist[i].Changed {
					last = w.Hist[i].String()
					break
				}
			}
			w.Report(Violation{Property: "C10", Rule: "not-idle", Sig: w.lastChangeSite(), Msg: fmt.Sprintf("epoch %d: at quiescence extra passes of every controller keep changing the store; last change: %s", epoch, last)})
			return
		}
		for round := 0; round < 3; round++ {
			time.Sleep(120 * time.Second)
			if changed, _ := ref.probePasses(ref.Cfg.CalmBudget); !changed {
				break
			}
			ref.Settle(ref.Cfg.CalmBudget)
		}
		refProj = ref.Projection()
		diff := DiffProjection(refProj, w.Projection())
		if len(diff) > 0 {
			// "The same end state as an undisturbed run" is only defined where undisturbed runs agree
			// with each other: a second undisturbed run of the same scenario under another fair
			// schedule is made, and a value the disturbed run shares with it is not a difference
			// (one-way decisions such as early archival of an intermediate revision legitimately
			// depend on who was available at which moment).
			ref2Proj, ok := c10SecondReference(w, spec, scnPrefix, epoch)
			if ok {
				w.Stats.Probe("c10-second-reference-run")
				got := w.Projection()
				var kept []string
				for _, d := range diff {
					f := strings.Fields(d)
					if len(f) >= 3 {
						k := f[1] + " " + strings.TrimSuffix(f[2], ":")
						gv, gok := got[k]
						rv, rok := ref2Proj[k]
						if gok == rok && gv == rv {
							continue
						}
					}
					kept = append(kept, d)
				}
				if len(kept) < len(diff) {
					w.Stats.Probe("c10-undisturbed-runs-disagree")
				}
				diff = kept
			}
		}
		if len(diff) > 0 {
			// While the newest revision of a deployment is unavailable, what happens to its older
			// revisions is a one-way decision taken on who was available at which moment (kept
			// while serving, archived early once unavailable and disjoint): every outcome is a
			// correct end state, so older revisions, what only they control, and the deployment's
			// own summary of them are not compared in that situation.
			skip := c10OlderRevisionKeys(ref, w)
			if len(skip) > 0 {
				var kept []string
				for _, d := range diff {
					f := strings.Fields(d)
					if len(f) >= 3 && skip[f[1]+" "+strings.TrimSuffix(f[2], ":")] {
						w.Stats.Probe("c10-older-revision-difference-not-compared")
						continue
					}
					kept = append(kept, d)
				}
				diff = kept
			}
		}
		if len(diff) > 0 {
			n := len(diff)
			if n > 4 {
				diff = diff[:4]
			}
			cause := w.diffCause(diff[0])
			sig := diffKind(diff[0]) + "/" + cause
			if cause != "plain" {
				sig = cause
			}
			w.Report(Violation{Property: "C10", Rule: "end-state-differs", Sig: sig, Msg: fmt.Sprintf("epoch %d: %d differences from the undisturbed run: %v", epoch, n, diff)})
			return
		}
		for _, m := range w.Monitors {
			m.OnQuiescent(w, epoch)
		}
	}
	for _, m := range w.Monitors {
		m.OnEnd(w)
	}
	if w.extra == nil {
		w.extra = map[string]any{}
	}
	w.extra["sweep_requests"] = float64(w.sweepCount)
	// what kind of base this is (the quick tier prefers bases that contain a teardown: most
	// of what can go wrong irrecoverably under a single fault sits in deletion and archival)
	if len(w.sweepTeardown) > 0 {
		w.extra["sweep_has_teardown"] = float64(1)
		idx := make([]any, len(w.sweepTeardown))
		for i, n := range w.sweepTeardown {
			idx[i] = float64(n)
		}
		w.extra["sweep_teardown_idx"] = idx
	}
}

// settleWithResync settles, lets more simulated time pass than any success
// delay, performs one periodic resync (every controller reconciles every
// object once, as the informers' resync period makes happen in production)
// and settles again.
func (w *World) settleWithResync() bool {
	if !w.Settle(w.Cfg.CalmBudget) {
		return false
	}
	time.Sleep(120 * time.Second)
	if _, ok := w.probePasses(w.Cfg.CalmBudget); !ok {
		return false
	}
	return w.Settle(w.Cfg.CalmBudget)
}

func (w *World) lastChangeSite() string {
	for i := len(w.Hist) - 1; i >= 0; i-- {
		if w.Hist[i].Changed && w.Hist[i].Pass != nil {
			return shortSite(w.Hist[i].Site)
		}
	}
	return "?"
}

func (w *World) lastBusySite() string {
	for i := len(w.Hist) - 1; i >= 0; i-- {
		if w.Hist[i].Pass != nil && w.Hist[i].IsWrite() {
			return shortSite(w.Hist[i].Site)
		}
	}
	return "?"
}

// diffCause attaches a cause tag to an end-state difference when a monitor
// tainted the differing object or, failing that, any object of the run (a
// stale takeover or stale apply cascades into the owning ObjectSets' status).
func (w *World) diffCause(d string) string {
	f := strings.Fields(d)
	if len(f) >= 3 {
		if t := w.Taint[f[1]+"|"+strings.TrimSuffix(f[2], ":")]; t != "" {
			return t
		}
	}
	keys := make([]string, 0, len(w.Taint))
	for k := range w.Taint {
		keys = append(keys, k)
	}
	sort.Strings(keys)
	for _, k := range keys {
		if k == "run" {
			return w.Taint[k]
		}
		// the cascade of a tainted object reaches only the PKO objects that list it
		if len(f) >= 3 && w.listsObject(f[1], strings.TrimSuffix(f[2], ":"), k) {
			return "run-" + w.Taint[k]
		}
	}
	return "plain"
}

// listsObject reports whether the PKO object diffKey (in cluster) lists the tainted object
// ("cluster|key") in its phases - directly (ObjectSet, ObjectSetPhase) or through its
// revisions (ObjectDeployment, Package).
func (w *World) listsObject(cluster, diffKey, tainted string) bool {
	cl := w.Cluster(cluster)
	if cl == nil {
		return false
	}
	var obj store.Obj
	for k, o := range cl.Objs {
		if k.String() == diffKey {
			obj = o
		}
	}
	if obj == nil {
		return false
	}
	kind := store.Str(obj, "kind")
	lists := func(owner store.Obj) bool {
		for _, so := range SpecObjects(owner, w.sliceLookup(owner)) {
			for _, c := range []string{"mgmt", "hosted"} {
				if c+"|"+w.normKey(c, so.Key).String() == tainted {
					return true
				}
			}
		}
		return false
	}
	switch {
	case isObjectSetKind(kind) || isPhaseKind(kind):
		return lists(obj)
	case isODKind(kind):
		for _, s := range setsOfDeployment(cl.Objs, obj) {
			if lists(s) {
				return true
			}
		}
	case isPkgKind(kind):
		for k, o := range cl.Objs {
			if isODKind(k.Kind) && k.Name == store.Str(obj, "metadata", "name") && k.Namespace == store.Str(obj, "metadata", "namespace") {
				for _, s := range setsOfDeployment(cl.Objs, o) {
					if lists(s) {
						return true
					}
				}
			}
		}
	}
	return false
}

// MonC10 only carries the exercised flag; the checks live in planC10.
type MonC10 struct{ BaseMon }

func (m *MonC10) ID() string { return "C10" }

// OnReq marks objects that received a PKO apply computed from a stale read
// (the pass's last observation is older than the stored object it overwrote).
func (m *MonC10) OnReq(w *World, r *Req) {
	if r.Pass != nil && r.DryRun && r.Err != nil && dryRunViolationReasons[r.ErrReason()] {
		// known finding (C04): a rejected dry run during teardown makes PKO abandon the object
		if o := ownerOfPass(r.Pass); o != nil && isTeardownOwner(o) {
			k := r.Cluster + "|" + r.Key().String()
			w.Taint[k] = "after-dry-run-rejection-in-teardown"
		}
		return
	}
	if r.Pass == nil || r.Patch != "apply" || r.DryRun || !r.Succeeded() || !r.Changed {
		return
	}
	if staleTag(r.Pass, r) == "stale-read" {
		k := r.Cluster + "|" + r.Key().String()
		if w.Taint[k] == "" {
			w.Taint[k] = "after-stale-apply"
		}
	}
}

var _ = store.Copy
