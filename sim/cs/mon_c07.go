package cs

import (
	"fmt"
	"reflect"
	"sort"

	"package-operator.run/internal/packages/verifsim/store"
)

// MonC07: one ObjectSet per template, with unique, increasing revision numbers.
type MonC07 struct {
	BaseMon
	epoch   map[string]int      // deployment uid -> template epoch
	epochAt map[string]int      // uid/generation -> template epoch of that generation
	created map[string][]string // uid/epoch -> created ObjectSet names
}

func (m *MonC07) ID() string { return "C07" }

func isODKind(k string) bool { return k == "ObjectDeployment" || k == "ClusterObjectDeployment" }

// templateSpecOf returns the template spec with CRD defaults applied (as an ObjectSet would store it).
func normTemplate(t any) store.Obj {
	tm, _ := t.(map[string]any)
	o := store.Obj{"spec": store.Copy(tm)}
	if o["spec"] == nil {
		o["spec"] = map[string]any{}
	}
	crdDefault(&store.KindInfo{GVK: pkoGVK("ObjectSet")}, o)
	sp := o["spec"].(map[string]any)
	delete(sp, "lifecycleState")
	delete(sp, "previous")
	return store.Normalize(sp)
}

func setTemplateOf(os store.Obj) store.Obj {
	sp, _ := os["spec"].(map[string]any)
	c := store.Copy(sp)
	if c == nil {
		c = store.Obj{}
	}
	delete(c, "lifecycleState")
	delete(c, "previous")
	return store.Normalize(c)
}

func (m *MonC07) OnReq(w *World, r *Req) {
	if m.epoch == nil {
		m.epoch = map[string]int{}
		m.created = map[string][]string{}
		m.epochAt = map[string]int{}
	}
	// template epochs: every change of spec.template in the store starts a new epoch
	if isODKind(r.GVK.Kind) && r.GVK.Group == PKOGroup && r.Changed && r.After != nil {
		if r.Before == nil || !reflect.DeepEqual(store.Get(r.Before, "spec", "template"), store.Get(r.After, "spec", "template")) {
			m.epoch[store.Str(r.After, "metadata", "uid")]++
		}
		u := store.Str(r.After, "metadata", "uid")
		m.epochAt[fmt.Sprintf("%s/%d", u, store.Int(r.After, "metadata", "generation"))] = m.epoch[u]
		return
	}
	p := r.Pass
	if p == nil || r.GVK.Group != PKOGroup || !isObjectSetKind(r.GVK.Kind) || r.DryRun || !r.Succeeded() {
		return
	}
	// revision assignment
	if r.Verb == "update-status" && r.Before != nil && r.After != nil {
		b, a := store.Int(r.Before, "status", "revision"), store.Int(r.After, "status", "revision")
		if b == 0 && a != 0 {
			m.touch()
			m.checkRevision(w, r, a)
		}
		return
	}
	if r.Verb != "create" || !isODKind(p.Ctrl) || r.After == nil {
		return
	}
	od := ownerOfPass(p)
	if od == nil {
		return
	}
	m.touch()
	uid := store.Str(od, "metadata", "uid")
	// spec equals the template the pass read
	if !reflect.DeepEqual(setTemplateOf(r.After), normTemplate(store.Get(od, "spec", "template", "spec"))) {
		w.Report(Violation{Property: "C07", Rule: "spec-mismatch", Sig: shortSite(r.Site), Seq: r.Seq,
			Msg: fmt.Sprintf("pass %d created %s whose spec differs from the template it read", p.ID, r.Key())})
		return
	}
	if b, _ := store.Get(od, "spec", "paused").(bool); b {
		w.Report(Violation{Property: "C07", Rule: "created-early", Sig: "paused", Seq: r.Seq,
			Msg: fmt.Sprintf("pass %d created %s although the deployment it read is paused", p.ID, r.Key())})
		return
	}
	if ph, _ := store.Get(od, "spec", "template", "spec", "phases").([]any); len(ph) == 0 {
		w.Report(Violation{Property: "C07", Rule: "created-early", Sig: "no-phases", Seq: r.Seq,
			Msg: fmt.Sprintf("pass %d created %s although the template has no phases", p.ID, r.Key())})
		return
	}
	// previous names every existing ObjectSet of the deployment; none of them lacks a revision
	existing := setsOfDeployment(w.Mgmt.Objs, od)
	var names, unrev []string
	for _, e := range existing {
		n := store.Str(e, "metadata", "name")
		if n == r.Name {
			continue
		}
		names = append(names, n)
		if store.Int(e, "status", "revision") == 0 {
			unrev = append(unrev, n)
		}
	}
	var prev []string
	pl, _ := store.Get(r.After, "spec", "previous").([]any)
	for _, x := range pl {
		if pm, ok := x.(map[string]any); ok {
			n, _ := pm["name"].(string)
			prev = append(prev, n)
		}
	}
	sort.Strings(names)
	sort.Strings(prev)
	// what the pass saw in its list
	var listed []string
	for _, q := range p.Reqs {
		if q.Verb == "list" && isObjectSetKind(q.GVK.Kind) && q.Seq < r.Seq {
			listed = nil
			for _, it := range q.Items {
				listed = append(listed, store.Str(it, "metadata", "name"))
			}
		}
	}
	cause := "seen"
	for _, n := range names {
		found := false
		for _, l := range listed {
			if l == n {
				found = true
			}
		}
		if !found {
			cause = "unseen-set"
		}
	}
	// every existing ObjectSet must be named; naming one that was deleted meanwhile
	// (still in the cache) is harmless and not forbidden by the statement
	missing := false
	for _, n := range names {
		found := false
		for _, pn := range prev {
			if pn == n {
				found = true
			}
		}
		if !found {
			missing = true
		}
	}
	if missing {
		w.Report(Violation{Property: "C07", Rule: "previous-incomplete", Sig: shortSite(r.Site) + "/" + cause, Seq: r.Seq,
			Msg: fmt.Sprintf("pass %d created %s with previous=%v while the deployment's ObjectSets in the store are %v (list read by the pass: %v)", p.ID, r.Key(), prev, names, listed)})
		return
	}
	if len(unrev) > 0 {
		w.Report(Violation{Property: "C07", Rule: "created-early", Sig: "unreported-revision/" + cause, Seq: r.Seq,
			Msg: fmt.Sprintf("pass %d created %s while %v had not reported a revision", p.ID, r.Key(), unrev)})
		return
	}
	k := fmt.Sprintf("%s/%d", uid, m.epochAt[fmt.Sprintf("%s/%d", uid, store.Int(od, "metadata", "generation"))])
	m.created[k] = append(m.created[k], r.Name)
	if len(m.created[k]) > 1 {
		// a second create in the same template epoch is legitimate only if the first was deleted by a third party
		stillThere := 0
		for _, n := range m.created[k] {
			if _, ok := w.Mgmt.Objs[store.Key{Group: PKOGroup, Kind: r.GVK.Kind, Namespace: r.NS, Name: n}]; ok {
				stillThere++
			}
		}
		if stillThere > 1 {
			w.Report(Violation{Property: "C07", Rule: "two-per-template", Sig: shortSite(r.Site) + "/" + cause, Seq: r.Seq,
				Msg: fmt.Sprintf("deployment %s: ObjectSets %v were all created for the same template", p.Key, m.created[k])})
		}
	}
}

func (m *MonC07) checkRevision(w *World, r *Req, rev int64) {
	ctrls := Controllers(r.After, "native")
	var odUID string
	for _, c := range ctrls {
		if isODKind(c.Kind) {
			odUID = c.UID
		}
	}
	if odUID != "" {
		for _, k := range sortedKeys(w.Mgmt.Objs) {
			if k.Group != PKOGroup || k.Kind != r.GVK.Kind || k == r.Key() {
				continue
			}
			o := w.Mgmt.Objs[k]
			same := false
			for _, c := range Controllers(o, "native") {
				if c.UID == odUID {
					same = true
				}
			}
			if same && store.Int(o, "status", "revision") == rev {
				cause := "not-in-previous"
				for _, pair := range [][2]store.Obj{{r.After, o}, {o, r.After}} {
					pl, _ := store.Get(pair[0], "spec", "previous").([]any)
					for _, x := range pl {
						if pm, ok := x.(map[string]any); ok && pm["name"] == store.Str(pair[1], "metadata", "name") {
							cause = "in-previous"
						}
					}
				}
				w.Taint["run"] = "after-duplicate-revision"
				w.Report(Violation{Property: "C07", Rule: "revision-duplicate", Sig: shortSite(r.Site) + "/" + cause, Seq: r.Seq,
					Msg: fmt.Sprintf("%s was given revision %d which %s of the same deployment already has", r.Key(), rev, k)})
				return
			}
		}
	}
	pl, _ := store.Get(r.After, "spec", "previous").([]any)
	for _, x := range pl {
		pm, _ := x.(map[string]any)
		n, _ := pm["name"].(string)
		if o, ok := w.Mgmt.Objs[store.Key{Group: PKOGroup, Kind: r.GVK.Kind, Namespace: r.NS, Name: n}]; ok {
			if pr := store.Int(o, "status", "revision"); pr >= rev {
				w.Report(Violation{Property: "C07", Rule: "revision-not-greater", Sig: shortSite(r.Site), Seq: r.Seq,
					Msg: fmt.Sprintf("%s was given revision %d, not greater than revision %d of its previous %s", r.Key(), rev, pr, n)})
				return
			}
		}
	}
}

func (m *MonC07) OnQuiescent(w *World, epoch int) {
	for _, k := range sortedKeys(w.Mgmt.Objs) {
		if k.Group != PKOGroup || !isODKind(k.Kind) {
			continue
		}
		od := w.Mgmt.Objs[k]
		if b, _ := store.Get(od, "spec", "paused").(bool); b || store.Deleting(od) {
			continue
		}
		ph, _ := store.Get(od, "spec", "template", "spec", "phases").([]any)
		if len(ph) == 0 {
			continue
		}
		sets := setsOfDeployment(w.Mgmt.Objs, od)
		var newest store.Obj
		revs := map[int64]bool{}
		dupRev := false
		for _, s := range sets {
			rv := store.Int(s, "status", "revision")
			if revs[rv] {
				dupRev = true
			}
			revs[rv] = true
		}
		if dupRev {
			continue // already reported as revision-duplicate; "newest" is not defined
		}
		selfPrev := false
		for _, s := range sets {
			pl, _ := store.Get(s, "spec", "previous").([]any)
			for _, x := range pl {
				if pm, ok := x.(map[string]any); ok && pm["name"] == store.Str(s, "metadata", "name") {
					selfPrev = true
				}
			}
		}
		if selfPrev {
			// the deployment controller listed a deleted namesake from a stale cache and named
			// it as previous of its own re-creation (it then waits for itself forever). That is
			// delete-not-yet-visible staleness, outside this property's quantifier.
			w.Stats.Probe("c07-self-previous-outside-quantifier")
			continue
		}
		for _, s := range sets {
			if newest == nil || store.Int(s, "status", "revision") > store.Int(newest, "status", "revision") {
				newest = s
			}
		}
		m.touch()
		want := normTemplate(store.Get(od, "spec", "template", "spec"))
		switch {
		case newest == nil:
			w.Report(Violation{Property: "C07", Rule: "no-current", Sig: "none", Msg: fmt.Sprintf("at quiescence %s has a template but no ObjectSet", k)})
		case !reflect.DeepEqual(setTemplateOf(newest), want):
			w.Report(Violation{Property: "C07", Rule: "no-current", Sig: "newest-differs", Msg: fmt.Sprintf("at quiescence the newest ObjectSet %s (revision %d) of %s does not match the template", store.Str(newest, "metadata", "name"), store.Int(newest, "status", "revision"), k)})
		case store.Str(newest, "spec", "lifecycleState") == "Archived":
			w.Report(Violation{Property: "C07", Rule: "no-current", Sig: "newest-archived", Msg: fmt.Sprintf("at quiescence the newest ObjectSet %s of %s is archived", store.Str(newest, "metadata", "name"), k)})
		}
	}
}
