package cs

import (
	"encoding/json"
	"fmt"

	"package-operator.run/internal/packages/verifsim/store"
)

// ownership states a generated/intruded object can be put in
const (
	ownNone = iota
	ownPlainForeign
	ownForeignController
	ownSetController // controller = one of the generated (Cluster)ObjectSets
	ownSetPlain      // plain owner = one of the generated sets
	ownStates
)

var revAnnotations = []string{"", "1", "2", "3", "9", "abc"}

func nativeRef(owner store.Obj, controller bool) map[string]any {
	r := map[string]any{
		"apiVersion": store.Str(owner, "apiVersion"), "kind": store.Str(owner, "kind"),
		"name": store.Str(owner, "metadata", "name"), "uid": store.Str(owner, "metadata", "uid"),
	}
	if controller {
		r["controller"] = true
		r["blockOwnerDeletion"] = true
	}
	return r
}

func annotationRef(owner store.Obj, controller bool) map[string]any {
	r := map[string]any{
		"apiVersion": store.Str(owner, "apiVersion"), "kind": store.Str(owner, "kind"),
		"name": store.Str(owner, "metadata", "name"), "namespace": store.Str(owner, "metadata", "namespace"),
		"uid": store.Str(owner, "metadata", "uid"),
	}
	if controller {
		r["controller"] = true
	}
	return r
}

// setOwnership rewrites the owner information of o under the given strategy.
func setOwnership(o store.Obj, strategy string, refs []store.Obj, controllerIdx int) {
	m := store.Meta(o)
	if strategy == "annotation" {
		var l []any
		for i, r := range refs {
			l = append(l, annotationRef(r, i == controllerIdx))
		}
		ann, _ := m["annotations"].(map[string]any)
		if ann == nil {
			ann = map[string]any{}
			m["annotations"] = ann
		}
		if len(l) == 0 {
			delete(ann, annOwners)
		} else {
			b, _ := json.Marshal(l)
			ann[annOwners] = string(b)
		}
		return
	}
	var l []any
	for i, r := range refs {
		l = append(l, nativeRef(r, i == controllerIdx))
	}
	if len(l) == 0 {
		delete(m, "ownerReferences")
	} else {
		m["ownerReferences"] = l
	}
}

func setAnnotation(o store.Obj, k, v string) {
	m := store.Meta(o)
	ann, _ := m["annotations"].(map[string]any)
	if ann == nil {
		ann = map[string]any{}
		m["annotations"] = ann
	}
	if v == "" {
		delete(ann, k)
	} else {
		ann[k] = v
	}
}

func setLabel(o store.Obj, k, v string) {
	m := store.Meta(o)
	l, _ := m["labels"].(map[string]any)
	if l == nil {
		l = map[string]any{}
		m["labels"] = l
	}
	if v == "" {
		delete(l, k)
	} else {
		l[k] = v
	}
}

// foreignOwner returns (creating on demand) an unrelated object used as a foreign owner.
func foreignOwner(w *World, cl *store.Cluster, ns string) store.Obj {
	key := store.Key{Kind: "ConfigMap", Namespace: ns, Name: "foreign-owner"}
	if o, ok := cl.Objs[key]; ok {
		return o
	}
	o, err := w.TP("setup", cl).Create(store.Obj{"apiVersion": "v1", "kind": "ConfigMap", "metadata": map[string]any{"name": "foreign-owner", "namespace": ns}})
	must(err)
	return o
}

// applyOwnershipState puts o into a drawn ownership state.
func applyOwnershipState(w *World, g *OSGen, cl *store.Cluster, strategy string, o store.Obj, draw func(n int, label string) int) string {
	state := draw(ownStates, "own-state")
	if g.NoForge && (state == ownSetController || state == ownSetPlain) {
		state = ownForeignController
	}
	ns := store.Str(o, "metadata", "namespace")
	if ns == "" {
		ns = nsMain
	}
	desc := ""
	pickSet := func() store.Obj {
		name := g.Names[draw(len(g.Names), "own-set")]
		return w.Mgmt.Objs[store.Key{Group: PKOGroup, Kind: g.Kind, Namespace: g.NS, Name: name}]
	}
	switch state {
	case ownNone:
		setOwnership(o, strategy, nil, -1)
		desc = "no owners"
	case ownPlainForeign:
		setOwnership(o, strategy, []store.Obj{foreignOwner(w, cl, ns)}, -1)
		desc = "plain foreign owner"
	case ownForeignController:
		setOwnership(o, strategy, []store.Obj{foreignOwner(w, cl, ns)}, 0)
		desc = "foreign controller"
	case ownSetController:
		if s := pickSet(); s != nil {
			setOwnership(o, strategy, []store.Obj{s}, 0)
			desc = "controller=" + store.Str(s, "metadata", "name")
		}
	case ownSetPlain:
		if s := pickSet(); s != nil {
			setOwnership(o, strategy, []store.Obj{s}, -1)
			desc = "plain owner=" + store.Str(s, "metadata", "name")
		}
	}
	rev := revAnnotations[draw(len(revAnnotations), "own-rev")]
	setAnnotation(o, annRevision, rev)
	desc += " rev=" + rev
	switch draw(4, "own-labels") {
	case 1:
		setLabel(o, lblCache, "True")
		desc += " cache-label"
	case 2:
		if w.Cfg.ForceAdoption {
			setLabel(o, lblPackage, "package-operator")
			desc += " package-label"
		}
	}
	return desc
}

// IntruderAgent is a third party that creates, re-owns, re-labels, edits and
// deletes objects PKO manages or is about to manage.
type IntruderAgent struct {
	G         *OSGen
	Mode      string // "boundary": only while no PKO pass is in flight; "granular": any time
	Budget    int
	Finalize  bool // may put and remove a blocking finalizer
	DriftOnly bool // only edit managed fields / delete / block (no ownership changes, no foreign fields)
	// PhaseObjects lets the intruder delete delegated phase objects (ObjectSetPhases) as well.
	PhaseObjects bool
	// Slices lets the intruder delete ObjectSlices.
	Slices  bool
	Targets []intruderTarget
}

type intruderTarget struct {
	cluster  string
	strategy string
	obj      store.Obj // desired shape (namespace filled)
}

func (a *IntruderAgent) Name() string { return "intruder" }

func (w *World) anyPassInFlight() bool {
	for _, act := range w.liveActors() {
		if act.state != stIdle {
			return true
		}
	}
	return false
}

func (a *IntruderAgent) Ops(w *World, calm bool) []AgentOp {
	if calm {
		// release blocking finalizers so that deletions can complete
		var ops []AgentOp
		for _, t := range a.Targets {
			cl := w.Cluster(t.cluster)
			k := store.KeyOf(t.obj)
			if o, ok := cl.Objs[k]; ok && store.HasFinalizer(o, "sim.example/block") {
				kk := k
				ops = append(ops, AgentOp{Label: "unblock " + k.String(), Weight: 4, Do: func(w *World) {
					_, _ = w.TP("intruder", cl).Mutate(kk, func(o store.Obj) { removeFinalizer(o, "sim.example/block") })
				}})
			}
		}
		return ops
	}
	if a.Budget <= 0 || !w.Cfg.Faults["drift"] {
		return nil
	}
	if a.Mode == "boundary" && w.anyPassInFlight() {
		return nil
	}
	return []AgentOp{{Label: "act", Weight: 2, Do: a.act}}
}

func (a *IntruderAgent) act(w *World) {
	if len(a.Targets) == 0 {
		return
	}
	a.Budget--
	if a.PhaseObjects && w.Sch.Intn(8, "intruder-phase-object") == 0 {
		// somebody deletes a delegated phase object (kubectl delete objectsetphase ...): its controller
		// tears the phase down, the ObjectSet re-creates it under the same name with a new UID
		var cands []store.Key
		for _, k := range sortedKeys(w.Mgmt.Objs) {
			if k.Group == PKOGroup && isPhaseKind(k.Kind) && !store.Deleting(w.Mgmt.Objs[k]) {
				cands = append(cands, k)
			}
		}
		if len(cands) > 0 {
			k := cands[w.Sch.Intn(len(cands), "intruder-phase-object-target")]
			if !a.DriftOnly && w.Sch.Intn(3, "intruder-phase-object-op") == 0 {
				// somebody else takes the phase object over (controller reference replaced)
				w.Stats.Probe("intruder-reown-phase-object")
				w.Tracef("INTRUDER re-own phase object %s", k)
				fns := k.Namespace
				if fns == "" {
					fns = nsMain
				}
				fo := foreignOwner(w, w.Mgmt, fns)
				_, _ = w.TP("intruder", w.Mgmt).Mutate(k, func(o store.Obj) {
					store.Meta(o)["ownerReferences"] = []any{nativeRef(fo, true)}
				})
				return
			}
			w.Stats.Probe("intruder-delete-phase-object")
			w.Tracef("INTRUDER delete phase object %s", k)
			_ = w.TP("intruder", w.Mgmt).Delete(k, "Background")
			return
		}
	}
	if a.Slices && w.Sch.Intn(8, "intruder-slice") == 0 {
		// somebody deletes an ObjectSlice an ObjectSet references
		var cands []store.Key
		for _, k := range sortedKeys(w.Mgmt.Objs) {
			if k.Group == PKOGroup && isSliceKind(k.Kind) {
				cands = append(cands, k)
			}
		}
		if len(cands) > 0 {
			k := cands[w.Sch.Intn(len(cands), "intruder-slice-target")]
			w.Stats.Probe("intruder-delete-slice")
			w.Tracef("INTRUDER delete slice %s", k)
			_ = w.TP("intruder", w.Mgmt).Delete(k, "Background")
			return
		}
	}
	t := a.Targets[w.Sch.Intn(len(a.Targets), "intruder-target")]
	cl := w.Cluster(t.cluster)
	k := w.normKey(t.cluster, store.KeyOf(t.obj))
	tp := w.TP("intruder", cl)
	draw := func(n int, label string) int { return w.Sch.Intn(n, "intruder-"+label) }
	cur, exists := cl.Objs[k]
	if a.DriftOnly {
		if !exists {
			return
		}
		// drift is restricted to objects that are actively managed: controlled by a
		// PKO owner that is neither paused (hands-off by design) nor being torn down
		if !w.activelyManaged(t.cluster, cur) {
			return
		}
		switch draw(4, "drift-op") {
		case 0, 1:
			w.Stats.Probe("drift-edit")
			w.Tracef("DRIFT edit %s", k)
			onlyEmpty := draw(3, "drift-empty-field") == 0
			_, _ = tp.Mutate(k, func(o store.Obj) {
				if d, ok := o["data"].(map[string]any); ok {
					if _, has := d["e"]; has && onlyEmpty {
						d["e"] = "drifted" // only the field whose desired value is the empty string
						return
					}
					d["k"] = "drifted"
				}
				if sp, ok := o["spec"].(map[string]any); ok {
					if _, has := sp["replicas"]; has {
						sp["replicas"] = int64(7)
					}
					if _, has := sp["size"]; has {
						sp["size"] = int64(77)
					}
				}
			})
		case 2:
			if w.claimedByOrphanedPhase(k) {
				// an orphan-propagation delete of a delegated revision leaves its phase objects behind, still
				// reconciling; once the parent is gone they and the successor revision are unrelated owners of
				// the same object, and who re-creates it first after a deletion is the schedule's choice
				w.Stats.Probe("drift-delete-skipped-orphaned-phase-rival")
				return
			}
			w.Stats.Probe("drift-delete")
			w.Tracef("DRIFT delete %s", k)
			_ = tp.Delete(k, "Background")
		case 3:
			if a.Finalize {
				w.Stats.Probe("drift-block")
				w.Tracef("DRIFT block %s", k)
				_, _ = tp.Mutate(k, func(o store.Obj) { addFinalizer(o, "sim.example/block") })
			}
		}
		return
	}
	if !exists {
		o := store.Copy(t.obj)
		desc := applyOwnershipState(w, a.G, cl, t.strategy, o, draw)
		w.Tracef("INTRUDER create %s (%s)", k, desc)
		w.Stats.Probe("intruder-create")
		_, _ = tp.Create(o)
		return
	}
	nOps := 5
	if a.Finalize {
		nOps = 7
	}
	switch draw(nOps, "op") {
	case 0: // re-own
		w.Stats.Probe("intruder-reown")
		_, _ = tp.Mutate(k, func(o store.Obj) {
			desc := applyOwnershipState(w, a.G, cl, t.strategy, o, draw)
			w.Tracef("INTRUDER re-own %s (%s)", k, desc)
		})
	case 1: // edit content
		w.Stats.Probe("intruder-edit")
		w.Tracef("INTRUDER edit %s", k)
		_, _ = tp.Mutate(k, func(o store.Obj) {
			setAnnotation(o, "sim.example/edited", fmt.Sprint(draw(1000, "edit")))
			if d, ok := o["data"].(map[string]any); ok {
				d["k"] = "intruded"
			}
		})
	case 2: // delete
		w.Stats.Probe("intruder-delete")
		w.Tracef("INTRUDER delete %s", k)
		_ = tp.Delete(k, "Background")
	case 3: // add a plain foreign owner (keeps what is there)
		w.Stats.Probe("intruder-add-owner")
		w.Tracef("INTRUDER add owner to %s", k)
		ns := k.Namespace
		if ns == "" {
			ns = nsMain
		}
		fo := foreignOwner(w, cl, ns)
		_, _ = tp.Mutate(k, func(o store.Obj) {
			if t.strategy == "annotation" {
				var l []any
				_ = json.Unmarshal([]byte(store.Annotations(o)[annOwners]), &l)
				l = append(l, annotationRef(fo, false))
				b, _ := json.Marshal(l)
				setAnnotation(o, annOwners, string(b))
				return
			}
			l, _ := store.Get(o, "metadata", "ownerReferences").([]any)
			for _, x := range l {
				if m, ok := x.(map[string]any); ok && m["uid"] == store.Str(fo, "metadata", "uid") {
					return
				}
			}
			store.Meta(o)["ownerReferences"] = append(l, nativeRef(fo, false))
		})
	case 4: // delete and re-create (new UID) in one step is two requests; do the delete, creation follows later
		w.Stats.Probe("intruder-recreate")
		w.Tracef("INTRUDER delete-for-recreate %s", k)
		if len(store.Finalizers(cur)) == 0 {
			_ = tp.Delete(k, "Background")
			o := store.Copy(t.obj)
			desc := applyOwnershipState(w, a.G, cl, t.strategy, o, draw)
			w.Tracef("INTRUDER re-create %s (%s)", k, desc)
			_, _ = tp.Create(o)
		}
	case 5: // blocking finalizer on
		w.Stats.Probe("intruder-block")
		w.Tracef("INTRUDER block %s", k)
		_, _ = tp.Mutate(k, func(o store.Obj) { addFinalizer(o, "sim.example/block") })
	case 6:
		w.Tracef("INTRUDER unblock %s", k)
		_, _ = tp.Mutate(k, func(o store.Obj) { removeFinalizer(o, "sim.example/block") })
	}
}

// activelyManaged reports whether obj is controlled by an ObjectSet or
// ObjectSetPhase that is expected to repair it (not paused, archived or deleting).
func (w *World) activelyManaged(cluster string, obj store.Obj) bool {
	for _, st := range []string{"native", "annotation"} {
		for _, c := range Controllers(obj, st) {
			if c.Group != PKOGroup {
				continue
			}
			for _, ns := range []string{store.Str(obj, "metadata", "namespace"), ""} {
				owner, ok := w.Mgmt.Objs[store.Key{Group: PKOGroup, Kind: c.Kind, Namespace: ns, Name: c.Name}]
				if !ok || store.Str(owner, "metadata", "uid") != c.UID {
					continue
				}
				if store.Deleting(owner) || isSpecPaused(owner) || isTeardownOwner(owner) {
					return false
				}
				if isPhaseKind(c.Kind) {
					for _, pc := range Controllers(owner, "native") {
						if set, ok := w.Mgmt.Objs[store.Key{Group: PKOGroup, Kind: pc.Kind, Namespace: ns, Name: pc.Name}]; ok {
							if store.Deleting(set) || isSpecPaused(set) || isTeardownOwner(set) {
								return false
							}
						}
					}
				}
				return true
			}
		}
	}
	return false
}

// claimedByOrphanedPhase reports whether a phase object that has lost its parent (orphan-propagation
// delete of the revision) still lists the object among the objects it reconciles.
func (w *World) claimedByOrphanedPhase(k store.Key) bool {
	for pk, ph := range w.Mgmt.Objs {
		if pk.Group != PKOGroup || !isPhaseKind(pk.Kind) || store.Deleting(ph) || len(Controllers(ph, "native")) > 0 {
			continue
		}
		objs, _ := store.Get(ph, "spec", "objects").([]any)
		for _, e := range objs {
			em, _ := e.(map[string]any)
			o, _ := em["object"].(map[string]any)
			if o == nil {
				continue
			}
			if store.Str(o, "kind") == k.Kind && store.Str(o, "metadata", "name") == k.Name {
				return true
			}
		}
	}
	return false
}
