package cs

import (
	"fmt"
	"reflect"

	"package-operator.run/internal/packages/verifsim/store"
)

// MonC06: ObjectSet status never claims more than the reconcile pass observed.
type MonC06 struct {
	BaseMon
	archivedDone map[string]int // owner uid -> pass id that stored Archived=True
}

func (m *MonC06) ID() string { return "C06" }

type coRef struct{ Kind, Group, Name, Namespace string }

func controllerOfList(o store.Obj) []coRef {
	l, _ := store.Get(o, "status", "controllerOf").([]any)
	var out []coRef
	for _, x := range l {
		mm, _ := x.(map[string]any)
		r := coRef{}
		r.Kind, _ = mm["kind"].(string)
		r.Group, _ = mm["group"].(string)
		r.Name, _ = mm["name"].(string)
		r.Namespace, _ = mm["namespace"].(string)
		out = append(out, r)
	}
	return out
}

func (r coRef) matches(k store.Key) bool {
	return r.Kind == k.Kind && r.Group == k.Group && r.Name == k.Name && (r.Namespace == k.Namespace || r.Namespace == "" || k.Namespace == "")
}

// observedControl reports whether any / the last observation of key in the pass
// shows it controlled by owner.
func observedControl(p *Pass, cluster string, key store.Key, owner store.Obj, strategy string, before uint64) (anyC, lastC, seen bool) {
	obs := p.Observations(cluster, key, before)
	for _, o := range obs {
		seen = true
		lastC = o != nil && IsControlledBy(o, owner, strategy)
		if lastC {
			anyC = true
		}
	}
	return
}

func condEqual(a, b *Cond) bool {
	if a == nil || b == nil {
		return a == b
	}
	return *a == *b
}

func (m *MonC06) OnReq(w *World, r *Req) {
	p := r.Pass
	if p == nil || !r.IsWrite() || r.DryRun {
		return
	}
	if !isObjectSetKind(p.Ctrl) && !isPhaseKind(p.Ctrl) {
		return
	}
	owner := ownerOfPass(p)
	if owner == nil {
		return
	}
	if CondTrue(owner, "Archived") {
		m.touch()
		w.Report(Violation{Property: "C06", Rule: "archived-shape", Sig: "reconciled-after-archival/" + shortSite(r.Site), Seq: r.Seq,
			Msg: fmt.Sprintf("pass %d of %s %s read its owner with Archived=True and still issued %s on %s", p.ID, p.Ctrl, p.Key, r.Verb, r.Key())})
		return
	}
	if r.Verb != "update-status" || !r.Succeeded() || r.Key() != store.KeyOf(owner) || r.After == nil {
		return
	}
	strategy, tc := strategyOf(p), targetCluster(p)
	lookup := passSliceLookup(w, p, owner)
	var phases []phaseInfo
	if isPhaseKind(p.Ctrl) {
		phases = []phaseInfo{{Name: "", Objs: SpecObjects(owner, nil)}}
	} else {
		phases = phasesInfo(owner, lookup)
	}
	probes, _ := store.Get(owner, "spec", "availabilityProbes").([]any)
	ran := passRanPhases(w, p, owner, phases)
	body := r.Body

	// Succeeded
	if CondTrue(r.Before, "Succeeded") && !CondTrue(r.After, "Succeeded") {
		w.Report(Violation{Property: "C06", Rule: "succeeded-withdrawn", Sig: shortSite(r.Site), Seq: r.Seq,
			Msg: fmt.Sprintf("pass %d of %s %s withdrew the Succeeded condition", p.ID, p.Ctrl, p.Key)})
		return
	}
	if !CondTrue(r.Before, "Succeeded") && CondTrue(r.After, "Succeeded") {
		m.touch()
		if !CondTrue(r.After, "Available") || CondTrue(r.After, "InTransition") {
			w.Report(Violation{Property: "C06", Rule: "succeeded-unjustified", Sig: shortSite(r.Site), Seq: r.Seq,
				Msg: fmt.Sprintf("pass %d of %s %s set Succeeded while Available=%v InTransition=%v", p.ID, p.Ctrl, p.Key, CondTrue(r.After, "Available"), CondTrue(r.After, "InTransition"))})
			return
		}
	}
	// archived shape
	if CondTrue(r.After, "Archived") {
		m.touch()
		if FindCond(r.After, "Available") != nil || len(controllerOfList(r.After)) > 0 {
			w.Report(Violation{Property: "C06", Rule: "archived-shape", Sig: "status/" + shortSite(r.Site), Seq: r.Seq,
				Msg: fmt.Sprintf("pass %d of %s %s stored Archived=True together with Available=%v controllerOf=%v", p.ID, p.Ctrl, p.Key, FindCond(r.After, "Available"), controllerOfList(r.After))})
		}
		return
	}
	if isTeardownOwner(owner) {
		return
	}
	// Available=True
	avail := FindCond(body, "Available")
	carried := !ran && condEqual(avail, FindCond(owner, "Available"))
	if avail != nil && avail.Status == "True" && !carried {
		m.touch()
		if avail.ObservedGeneration != store.Int(r.After, "metadata", "generation") {
			w.Stats.Probe("c06-available-stale-generation")
			w.Report(Violation{Property: "C06", Rule: "available-unjustified", Sig: "generation/" + shortSite(r.Site), Seq: r.Seq,
				Msg: fmt.Sprintf("pass %d of %s %s wrote Available=True for generation %d while the stored object is at generation %d", p.ID, p.Ctrl, p.Key, avail.ObservedGeneration, store.Int(r.After, "metadata", "generation"))})
			return
		}
		for _, ph := range phases {
			ok, _, why := phaseObserved(w, p, owner, ph, probes, r.Seq)
			if !ok {
				w.Report(Violation{Property: "C06", Rule: "available-unjustified", Sig: "probes/" + shortSite(r.Site), Seq: r.Seq,
					Msg: fmt.Sprintf("pass %d of %s %s wrote Available=True although phase %q did not pass on what it observed: %s", p.ID, p.Ctrl, p.Key, ph.Name, why)})
				return
			}
		}
		// controllerOf: justified and complete
		co := controllerOfList(body)
		for _, c := range co {
			justified := false
			for _, ph := range phases {
				if ph.Class != "" {
					for _, po := range p.Observations("mgmt", phaseObjectKey(owner, ph.Name), r.Seq) {
						for _, pc := range controllerOfList(po) {
							if pc == c {
								justified = true
							}
						}
					}
					continue
				}
				for _, so := range ph.Objs {
					k := w.normKey(tc, so.Key)
					if c.matches(k) {
						if anyC, _, _ := observedControl(p, tc, k, owner, strategy, r.Seq); anyC {
							justified = true
						}
					}
				}
			}
			if !justified {
				w.Report(Violation{Property: "C06", Rule: "controllerof-unjustified", Sig: shortSite(r.Site), Seq: r.Seq,
					Msg: fmt.Sprintf("pass %d of %s %s reports controllerOf entry %v which it did not observe under its control", p.ID, p.Ctrl, p.Key, c)})
				return
			}
		}
		for _, ph := range phases {
			if ph.Class != "" {
				continue
			}
			for _, so := range ph.Objs {
				k := w.normKey(tc, so.Key)
				_, lastC, _ := observedControl(p, tc, k, owner, strategy, r.Seq)
				if !lastC {
					continue
				}
				found := false
				for _, c := range co {
					if c.matches(k) {
						found = true
					}
				}
				if !found {
					w.Report(Violation{Property: "C06", Rule: "controllerof-incomplete", Sig: shortSite(r.Site), Seq: r.Seq,
						Msg: fmt.Sprintf("pass %d of %s %s wrote Available=True but controllerOf %v misses %s which it observed under its control", p.ID, p.Ctrl, p.Key, co, k)})
					return
				}
			}
		}
	}
	// InTransition cleared
	if isObjectSetKind(p.Ctrl) && CondTrue(r.Before, "InTransition") && !CondTrue(r.After, "InTransition") {
		m.touch()
		for _, ph := range phases {
			if ph.Class != "" {
				// every object of the phase must be reported by the phase object
				for _, so := range ph.Objs {
					k := w.normKey("mgmt", so.Key)
					rep := false
					for _, po := range p.Observations("mgmt", phaseObjectKey(owner, ph.Name), r.Seq) {
						for _, pc := range controllerOfList(po) {
							if pc.matches(k) {
								rep = true
							}
						}
					}
					if !rep {
						w.Report(Violation{Property: "C06", Rule: "intransition-cleared", Sig: "delegated/" + shortSite(r.Site), Seq: r.Seq,
							Msg: fmt.Sprintf("pass %d of %s %s cleared InTransition although %s (delegated phase %q) was not reported under its control", p.ID, p.Ctrl, p.Key, k, ph.Name)})
						return
					}
				}
				continue
			}
			for _, so := range ph.Objs {
				k := w.normKey(tc, so.Key)
				anyC, _, _ := observedControl(p, tc, k, owner, strategy, r.Seq)
				if !anyC {
					w.Report(Violation{Property: "C06", Rule: "intransition-cleared", Sig: shortSite(r.Site), Seq: r.Seq,
						Msg: fmt.Sprintf("pass %d of %s %s cleared InTransition although it did not see %s under its control", p.ID, p.Ctrl, p.Key, k)})
					return
				}
			}
		}
	}
	_ = reflect.DeepEqual
}
