package cs

import (
	"k8s.io/apimachinery/pkg/runtime/schema"
	"sigs.k8s.io/controller-runtime/pkg/client"
	"sigs.k8s.io/controller-runtime/pkg/handler"
	"sigs.k8s.io/controller-runtime/pkg/predicate"

	corev1alpha1 "package-operator.run/apis/core/v1alpha1"
	"package-operator.run/internal/controllers/objectdeployments"
	"package-operator.run/internal/controllers/objectsetphases"
	"package-operator.run/internal/controllers/objectsets"
	"package-operator.run/internal/packages/verifsim/store"
)

func gk(kind string) schema.GroupKind { return schema.GroupKind{Group: PKOGroup, Kind: kind} }

func ownsHandler(owner client.Object, w *World) handler.EventHandler {
	return handler.EnqueueRequestForOwner(Scheme, w.Mapper, owner, handler.OnlyControllerOwner())
}

// buildManager wires package-operator-manager the way
// cmd/package-operator-manager/components does (SetupWithManager transcribed).
func buildManager(p *Process) {
	w := p.w
	cl := w.Mgmt
	mgr := p.client(cl, "mgr", true)
	unc := p.client(cl, "uncached", false)
	dc := p.newDynCache(cl)

	// ObjectSet / ClusterObjectSet
	{
		rec := objectsets.NewObjectSetController(mgr, discardLog, Scheme, dc, unc, nil, w.Mapper)
		c := p.addController("ObjectSet", rec, 1)
		c.watch(cl, gk("ObjectSet"), &handler.EnqueueRequestForObject{}, &predicate.GenerationChangedPredicate{})
		c.watch(cl, gk("ObjectSetPhase"), ownsHandler(&corev1alpha1.ObjectSet{}, w))
		c.startDynSource(dc.Source(handler.EnqueueRequestForOwner(Scheme, w.Mapper, &corev1alpha1.ObjectSet{})))
	}
	{
		rec := objectsets.NewClusterObjectSetController(mgr, discardLog, Scheme, dc, unc, nil, w.Mapper)
		c := p.addController("ClusterObjectSet", rec, 1)
		c.watch(cl, gk("ClusterObjectSet"), &handler.EnqueueRequestForObject{}, &predicate.GenerationChangedPredicate{})
		c.watch(cl, gk("ClusterObjectSetPhase"), ownsHandler(&corev1alpha1.ClusterObjectSet{}, w))
		c.startDynSource(dc.Source(handler.EnqueueRequestForOwner(Scheme, w.Mapper, &corev1alpha1.ClusterObjectSet{})))
	}
	// ObjectSetPhase / ClusterObjectSetPhase (class "default", same cluster)
	{
		rec := objectsetphases.NewSameClusterObjectSetPhaseController(discardLog, Scheme, dc, unc, "default", mgr, w.Mapper)
		c := p.addController("ObjectSetPhase", rec, 1)
		c.watch(cl, gk("ObjectSetPhase"), &handler.EnqueueRequestForObject{})
		c.startDynSource(dc.Source(handler.EnqueueRequestForOwner(Scheme, w.Mapper, &corev1alpha1.ObjectSetPhase{})))
	}
	{
		rec := objectsetphases.NewSameClusterClusterObjectSetPhaseController(discardLog, Scheme, dc, unc, "default", mgr, w.Mapper)
		c := p.addController("ClusterObjectSetPhase", rec, 1)
		c.watch(cl, gk("ClusterObjectSetPhase"), &handler.EnqueueRequestForObject{})
		c.startDynSource(dc.Source(handler.EnqueueRequestForOwner(Scheme, w.Mapper, &corev1alpha1.ClusterObjectSetPhase{})))
	}
	// ObjectDeployment / ClusterObjectDeployment
	{
		rec := objectdeployments.NewObjectDeploymentController(mgr, discardLog, Scheme)
		c := p.addController("ObjectDeployment", rec, 1)
		c.watch(cl, gk("ObjectDeployment"), &handler.EnqueueRequestForObject{})
		c.watch(cl, gk("ObjectSet"), ownsHandler(&corev1alpha1.ObjectDeployment{}, w))
	}
	{
		rec := objectdeployments.NewClusterObjectDeploymentController(mgr, discardLog, Scheme)
		c := p.addController("ClusterObjectDeployment", rec, 1)
		c.watch(cl, gk("ClusterObjectDeployment"), &handler.EnqueueRequestForObject{})
		c.watch(cl, gk("ClusterObjectSet"), ownsHandler(&corev1alpha1.ClusterObjectDeployment{}, w))
	}
	if w.Cfg.Packages {
		buildPackageControllers(p, mgr, unc)
	}
	if w.Cfg.Templates {
		buildTemplateControllers(p, mgr, unc, dc)
	}
	_ = dc.Start(p.ctx)
}

// buildRemotePhaseManager wires cmd/remote-phase-manager: ObjectSetPhases of
// class "hosted-cluster" are read from mgmt and reconciled into the hosted
// cluster with the annotation owner strategy.
func buildRemotePhaseManager(p *Process) {
	w := p.w
	mgmt := p.client(w.Mgmt, "mgr", true)
	target := p.client(w.Host, "target", false)
	uncTarget := p.client(w.Host, "uncached-target", false)
	dc := p.newDynCache(w.Host)
	{
		rec := objectsetphases.NewMultiClusterObjectSetPhaseController(discardLog, Scheme, dc, uncTarget, "hosted-cluster", mgmt, target, w.Mapper)
		c := p.addController("ObjectSetPhase", rec, 1)
		c.watch(w.Mgmt, gk("ObjectSetPhase"), &handler.EnqueueRequestForObject{})
		c.startDynSource(dc.Source(annotationOwnerHandler(&corev1alpha1.ObjectSetPhase{}, w)))
	}
	{
		rec := objectsetphases.NewMultiClusterClusterObjectSetPhaseController(discardLog, Scheme, dc, uncTarget, "hosted-cluster", mgmt, target, w.Mapper)
		c := p.addController("ClusterObjectSetPhase", rec, 1)
		c.watch(w.Mgmt, gk("ClusterObjectSetPhase"), &handler.EnqueueRequestForObject{})
		c.startDynSource(dc.Source(annotationOwnerHandler(&corev1alpha1.ClusterObjectSetPhase{}, w)))
	}
	_ = dc.Start(p.ctx)
}

// StartProcesses creates the processes a configuration asks for.
func (w *World) StartProcesses() {
	w.newProcess("manager", buildManager)
	if w.Cfg.Hosted {
		w.EnableHosted()
		w.newProcess("remote-phase-manager", buildRemotePhaseManager)
	}
}

var _ = store.Copy
