package cs

import (
	"fmt"
	"strconv"

	"package-operator.run/internal/packages/verifsim/store"
)

// OSProfile selects what the hand-made (Cluster)ObjectSet scenario family varies.
type OSProfile struct {
	// PhaseObjectDrift lets the intruder delete delegated phase objects (they are re-created with a new UID).
	// Recreate: a deleted ObjectSet may come back under the same name and be deleted again.
	Recreate bool
	// EmptyProbeEntry allows an availabilityProbes entry without probes (status freshness only).
	EmptyProbeEntry  bool
	PhaseObjectDrift bool
	// SliceDrift lets the intruder delete ObjectSlices (sliced scenarios).
	SliceDrift       bool
	MaxSets          int
	Preexisting      int    // chance (x/10) that a pool object pre-exists in a generated ownership state
	Lifecycle        bool   // pause / archive / delete / orphan-delete user operations
	Violations       bool   // preflight violators
	StampedManifests bool   // objects in the spec may carry a package-operator.run/revision annotation of their own
	RecreateOrphaned bool   // an orphan-deleted set may come back under the same name (and then be paused)
	AdmissionFlip    bool   // admission may start (and stop) refusing an object after the sets were created
	Delegation       bool   // phases with class default (and hosted-cluster when cfg.Hosted)
	Intruder         string // "", "boundary", "granular"
	Finalizers       bool   // intruder may put blocking finalizers on managed objects
	ForceCluster     int    // 0 draw, 1 namespaced, 2 cluster-scoped
	LateCreate       bool   // some sets are created by user operations during the run
	NeverReady       bool   // some workloads never become ready / stay stale
	NoForge          bool   // third parties never forge ownership by one of the generated sets
	CompletePrev     bool   // every set names all earlier sets as previous (no contested objects)
	Sliced           int    // 0 inline; 1 move phase objects into hand-made ObjectSlices
	OldestFirst      bool   // archive/delete operations only hit the oldest set still alive (no re-create race among older revisions)
	DelegateMask     int    // bit i set: phase i of every set is delegated to class "default" (no choices consumed)
	NoOrphan         bool   // no orphan-propagation deletes among the lifecycle operations
	CondMappings     bool   // some listed objects carry conditionMappings (C19)
	AllLate          bool   // every set but the first is created by its own user operation
	DriftOnly        bool   // the intruder only edits managed fields, deletes, and blocks deletion (C10)
}

const (
	nsMain    = "ns1"
	nsForeign = "ns2"
)

type poolObj struct {
	gvkKind string
	api     string
	name    string
	ns      string // "" = owner's namespace (namespaced kinds) or cluster-scoped
	cluster bool
}

func mkObject(p poolObj, variant int, explicitNS string) store.Obj {
	o := store.Obj{"apiVersion": p.api, "kind": p.gvkKind, "metadata": map[string]any{"name": p.name}}
	if explicitNS != "" && !p.cluster {
		store.Meta(o)["namespace"] = explicitNS
	}
	switch p.gvkKind {
	case "ConfigMap", "Secret":
		o["data"] = map[string]any{"k": "v" + strconv.Itoa(variant), "e": ""} // "e": a field whose desired value is empty
	case "Deployment":
		o["spec"] = map[string]any{"replicas": int64(1), "variant": int64(variant)}
	case "Widget", "ClusterWidget":
		o["spec"] = map[string]any{"size": int64(variant)}
		store.Meta(o)["labels"] = map[string]any{"app": "w"}
	case "ClusterRole":
		o["rules"] = []any{map[string]any{"verbs": []any{"get"}, "variant": int64(variant)}}
	}
	return o
}

var nsPool = []poolObj{
	{"ConfigMap", "v1", "cm-a", "", false},
	{"ConfigMap", "v1", "cm-b", "", false},
	{"Deployment", "apps/v1", "dep-a", "", false},
	{"Widget", "sim.example/v1", "w-a", "", false},
	{"ConfigMap", "v1", "cm-c", "", false},
	{"Deployment", "apps/v1", "dep-b", "", false},
}

var clusterExtra = []poolObj{
	{"ClusterWidget", "sim.example/v1", "cw-a", "", true},
	{"ClusterRole", "rbac.authorization.k8s.io/v1", "cr-a", "", true},
}

var probePool = []store.Obj{
	{"selector": map[string]any{"kind": map[string]any{"group": "apps", "kind": "Deployment"}},
		"probes": []any{
			map[string]any{"condition": map[string]any{"type": "Available", "status": "True"}},
			map[string]any{"fieldsEqual": map[string]any{"fieldA": ".status.updatedReplicas", "fieldB": ".status.replicas"}},
		}},
	{"selector": map[string]any{"kind": map[string]any{"group": "sim.example", "kind": "Widget"}},
		"probes": []any{map[string]any{"condition": map[string]any{"type": "Ready", "status": "True"}}}},
	{"selector": map[string]any{"kind": map[string]any{"group": "sim.example", "kind": "Widget"}, "selector": map[string]any{"matchLabels": map[string]any{"app": "w"}}},
		"probes": []any{map[string]any{"cel": map[string]any{"rule": `has(self.status) && has(self.status.phase) && self.status.phase == "Running"`, "message": "not running"}}}},
	{"selector": map[string]any{"kind": map[string]any{"group": "sim.example", "kind": "ClusterWidget"}},
		"probes": []any{map[string]any{"condition": map[string]any{"type": "Ready", "status": "True"}}}},
	// an entry without probes still demands an up-to-date status (observedGeneration) of what it selects
	{"selector": map[string]any{"kind": map[string]any{"group": "apps", "kind": "Deployment"}}, "probes": []any{}},
}

// OSGen is the state of the generated ObjectSet scenario (kept as Facts).
type OSGen struct {
	Cluster  bool
	Kind     string // ObjectSet or ClusterObjectSet
	NS       string
	Names    []string
	ExpRev   map[string]int64 // expected revision from the chain structure
	Pool     []poolObj
	Workload *WorkloadAgent
	NoForge  bool
	PhaseOf  map[string]map[string]int // set name -> object key (as written, ns defaulted) -> phase index
}

func phaseName(i int) string { return []string{"alpha", "bravo", "charlie", "delta"}[i] }

// GenOS generates a chain of hand-made (Cluster)ObjectSets and the actors around them.
func GenOS(w *World, prof OSProfile) *Scenario {
	s := w.Scn
	sc := &Scenario{Family: "S-OS", Facts: map[string]any{}}
	g := &OSGen{ExpRev: map[string]int64{}, NoForge: prof.NoForge}
	sc.Facts["os"] = g
	switch prof.ForceCluster {
	case 1:
		g.Cluster = false
	case 2:
		g.Cluster = true
	default:
		g.Cluster = s.Chance(1, 4, "cluster-scoped")
	}
	g.Kind, g.NS = "ObjectSet", nsMain
	g.Pool = append([]poolObj{}, nsPool...)
	if g.Cluster {
		g.Kind, g.NS = "ClusterObjectSet", ""
		g.Pool = append(g.Pool, clusterExtra...)
	}
	user := w.TP("user", w.Mgmt)
	for _, ns := range []string{nsMain, nsForeign} {
		_, err := user.Create(store.Obj{"apiVersion": "v1", "kind": "Namespace", "metadata": map[string]any{"name": ns}})
		must(err)
		if w.Host != nil {
			_, err := w.TP("user", w.Host).Create(store.Obj{"apiVersion": "v1", "kind": "Namespace", "metadata": map[string]any{"name": ns}})
			must(err)
		}
	}

	nSets := 1 + s.Intn(prof.MaxSets, "nSets")
	wl := &WorkloadAgent{Cluster: "mgmt", Policy: map[store.Key]string{}, Budget: s.Intn(10, "workload-budget")}
	g.Workload = wl
	var specs []store.Obj
	for i := 0; i < nSets; i++ {
		name := fmt.Sprintf("os-%d", i+1)
		g.Names = append(g.Names, name)
		// previous list
		var prev []any
		var maxPrev int64
		if i > 0 {
			mode := s.Weighted([]int{6, 2, 1}, "previous-mode") // complete, partial, empty
			if prof.CompletePrev {
				mode = 0
			}
			for j := 0; j < i; j++ {
				take := mode == 0 || (mode == 1 && s.Bool("prev-take"))
				if take {
					prev = append(prev, map[string]any{"name": g.Names[j]})
					if g.ExpRev[g.Names[j]] > maxPrev {
						maxPrev = g.ExpRev[g.Names[j]]
					}
				}
			}
		}
		g.ExpRev[name] = maxPrev + 1
		spec := genTemplateSpec(w, g, prof, i)
		if len(prev) > 0 {
			spec["previous"] = prev
		}
		o := store.Obj{"apiVersion": PKOGroup + "/" + PKOVer, "kind": g.Kind, "metadata": map[string]any{"name": name}, "spec": spec}
		if !g.Cluster {
			store.Meta(o)["namespace"] = g.NS
		}
		specs = append(specs, o)
	}
	// workload policies
	if prof.NeverReady {
		for _, p := range g.Pool {
			if p.gvkKind == "Deployment" || p.gvkKind == "Widget" || p.gvkKind == "ClusterWidget" {
				k := store.Key{Group: groupOf(p.api), Kind: p.gvkKind, Namespace: nsMain, Name: p.name}
				if p.cluster {
					k.Namespace = ""
				}
				switch s.Weighted([]int{7, 2, 1}, "workload-policy") {
				case 1:
					wl.Policy[k] = "never"
				case 2:
					wl.Policy[k] = "stale"
				}
			}
		}
	}
	g.PhaseOf = map[string]map[string]int{}
	for _, o := range specs {
		m := map[string]int{}
		for _, so := range SpecObjects(o, nil) {
			m[so.Key.String()] = so.Phase
		}
		g.PhaseOf[store.Str(o, "metadata", "name")] = m
	}
	if prof.Sliced == 1 {
		for _, o := range specs {
			sliceSet(w, g, o)
		}
	}
	// creation: at setup or later
	for i, o := range specs {
		o := o
		late := prof.LateCreate && i > 0 && (prof.AllLate || s.Chance(1, 2, "late-create"))
		if late {
			sc.UserOps = append(sc.UserOps, UserOp{Label: "create " + g.Names[i], Do: func(w *World) {
				_, _ = w.TP("user", w.Mgmt).Create(o)
			}})
		} else {
			_, err := user.Create(o)
			must(err)
		}
		sc.Desc = append(sc.Desc, describeSet(o))
	}
	if prof.Lifecycle {
		nOps := s.Intn(4, "nLifecycleOps")
		tornDown := 0
		for i := 0; i < nOps; i++ {
			name := g.Names[s.Intn(len(g.Names), "lc-target")]
			op := s.Intn(5, "lc-op")
			if prof.NoOrphan && op == 4 {
				op = 3
			}
			if prof.OldestFirst && op >= 2 {
				if tornDown >= len(g.Names) {
					continue
				}
				name = g.Names[tornDown]
				tornDown++
			}
			key := store.Key{Group: PKOGroup, Kind: g.Kind, Namespace: g.NS, Name: name}
			switch op {
			case 0:
				sc.UserOps = append(sc.UserOps, UserOp{Label: "pause " + name, Do: func(w *World) { setLifecycle(w, key, "Paused") }})
			case 1:
				sc.UserOps = append(sc.UserOps, UserOp{Label: "unpause " + name, Do: func(w *World) { setLifecycle(w, key, "Active") }})
			case 2:
				sc.UserOps = append(sc.UserOps, UserOp{Label: "archive " + name, Do: func(w *World) { setLifecycle(w, key, "Archived") }})
			case 3:
				sc.UserOps = append(sc.UserOps, UserOp{Label: "delete " + name, Do: func(w *World) { _ = w.TP("user", w.Mgmt).Delete(key, "Background") }})
				if prof.Recreate && s.Chance(1, 2, "recreate") {
					// the same name comes back as a new object (new UID) in the same operator process
					var again store.Obj
					for _, sp := range specs {
						if store.Str(sp, "metadata", "name") == name {
							again = store.Copy(sp)
						}
					}
					if again != nil {
						sc.UserOps = append(sc.UserOps, UserOp{Label: "re-create " + name, Do: func(w *World) {
							if _, exists := w.Mgmt.Objs[key]; !exists {
								_, _ = w.TP("user", w.Mgmt).Create(store.Copy(again))
							}
						}})
						sc.UserOps = append(sc.UserOps, UserOp{Label: "delete " + name + " again", Do: func(w *World) { _ = w.TP("user", w.Mgmt).Delete(key, "Background") }})
					}
				}
			case 4:
				sc.UserOps = append(sc.UserOps, UserOp{Label: "delete --cascade=orphan " + name, Do: func(w *World) { _ = w.TP("user", w.Mgmt).Delete(key, "Orphan") }})
				if prof.RecreateOrphaned && s.Chance(1, 2, "recreate-orphaned") {
					// the same name comes back and finds what its predecessor left behind, delegated phase objects included
					var again store.Obj
					for _, sp := range specs {
						if store.Str(sp, "metadata", "name") == name {
							again = store.Copy(sp)
						}
					}
					if again != nil {
						sc.UserOps = append(sc.UserOps, UserOp{Label: "re-create " + name + " (after the orphan delete)", Do: func(w *World) {
							if _, exists := w.Mgmt.Objs[key]; !exists {
								_, _ = w.TP("user", w.Mgmt).Create(store.Copy(again))
							}
						}})
						if s.Bool("pause-recreated") {
							sc.UserOps = append(sc.UserOps, UserOp{Label: "pause " + name, Do: func(w *World) { setLifecycle(w, key, "Paused") }})
						}
					}
				}
			}
		}
	}
	if prof.AdmissionFlip && len(specs) > 0 && s.Chance(1, 2, "admission-flip") {
		// the answer of the server-side dry run is not a function of the spec: a policy that comes into
		// force later (or a permission that is withdrawn) makes an object unacceptable after a rollout
		o := specs[s.Intn(len(specs), "flip-set")]
		if sos := SpecObjects(o, nil); len(sos) > 0 {
			so := sos[s.Intn(len(sos), "flip-object")]
			cluster := "mgmt"
			if so.Class == "hosted-cluster" {
				cluster = "hosted"
			}
			id := cluster + "|" + w.normKey(cluster, so.Key).String()
			touch := func(w *World, v string) {
				for _, k := range sortedKeys(w.Mgmt.Objs) {
					if k.Group == PKOGroup && (isObjectSetKind(k.Kind) || isPhaseKind(k.Kind)) {
						_, _ = w.TP("user", w.Mgmt).Mutate(k, func(x store.Obj) { setAnnotation(x, "sim.example/touched", v) })
					}
				}
			}
			ops := []UserOp{{Label: "admission starts refusing " + id, Do: func(w *World) {
				if w.Denied == nil {
					w.Denied = map[string]bool{}
				}
				w.Denied[id] = true
				w.DenyFlips = append(w.DenyFlips, w.C.Seq)
				touch(w, "deny")
			}}}
			if s.Bool("flip-back") {
				ops = append(ops, UserOp{Label: "admission accepts " + id + " again", Do: func(w *World) {
					delete(w.Denied, id)
					w.DenyFlips = append(w.DenyFlips, w.C.Seq)
					touch(w, "allow")
				}})
			}
			at := s.Intn(len(sc.UserOps)+1, "flip-at")
			sc.UserOps = append(sc.UserOps[:at], append(ops, sc.UserOps[at:]...)...)
		}
	}
	// intruder targets: every listed object, on the cluster its phase is realised in
	var targets []intruderTarget
	seenT := map[string]bool{}
	for _, o := range specs {
		for _, so := range SpecObjects(o, nil) {
			cluster, strategy := "mgmt", "native"
			if so.Class == "hosted-cluster" {
				cluster, strategy = "hosted", "annotation"
			}
			obj := store.Copy(so.Obj)
			k := w.normKey(cluster, so.Key)
			if k.Namespace != "" {
				store.Meta(obj)["namespace"] = k.Namespace
			} else {
				delete(store.Meta(obj), "namespace")
			}
			id := cluster + "|" + k.String()
			if seenT[id] {
				continue
			}
			seenT[id] = true
			targets = append(targets, intruderTarget{cluster: cluster, strategy: strategy, obj: obj})
		}
	}
	if prof.Preexisting > 0 {
		for _, t := range targets {
			if !s.Chance(prof.Preexisting, 10, "preexisting") {
				continue
			}
			cl := w.Cluster(t.cluster)
			o := store.Copy(t.obj)
			desc := applyOwnershipState(w, g, cl, t.strategy, o, func(n int, l string) int { return s.Intn(n, "pre-"+l) })
			if _, err := w.TP("setup", cl).Create(o); err == nil {
				sc.Desc = append(sc.Desc, "pre-existing "+t.cluster+" "+store.KeyOf(o).String()+": "+desc)
			}
		}
	}
	if prof.Intruder != "" {
		w.AddAgent(&IntruderAgent{G: g, Mode: prof.Intruder, Budget: 1 + s.Intn(6, "intruder-budget"), Finalize: prof.Finalizers, Targets: targets, DriftOnly: prof.DriftOnly, PhaseObjects: prof.PhaseObjectDrift, Slices: prof.SliceDrift})
	}
	w.AddAgent(wl)
	if w.Host != nil {
		w.AddAgent(&WorkloadAgent{Cluster: "hosted", Policy: wl.Policy, Budget: wl.Budget})
	}
	w.AddAgent(&GCAgent{Cluster: "mgmt"})
	return sc
}

func setLifecycle(w *World, key store.Key, state string) {
	_, _ = w.TP("user", w.Mgmt).Mutate(key, func(o store.Obj) {
		sp, _ := o["spec"].(map[string]any)
		if sp == nil {
			sp = map[string]any{}
			o["spec"] = sp
		}
		if sp["lifecycleState"] == "Archived" {
			return // archival is final
		}
		sp["lifecycleState"] = state
	})
}

func describeSet(o store.Obj) string {
	out := store.Str(o, "kind") + " " + store.Str(o, "metadata", "name") + ":"
	for _, px := range PhasesOf(o) {
		p, _ := px.(map[string]any)
		out += fmt.Sprintf(" [%v", p["name"])
		if c, _ := p["class"].(string); c != "" {
			out += "(" + c + ")"
		}
		objs, _ := p["objects"].([]any)
		for _, ox := range objs {
			om, _ := ox.(map[string]any)
			ob, _ := om["object"].(map[string]any)
			out += " " + store.Str(ob, "kind") + "/" + store.Str(ob, "metadata", "name")
			if cp, _ := om["collisionProtection"].(string); cp != "" {
				out += "{" + cp + "}"
			}
		}
		out += "]"
	}
	if prev, _ := store.Get(o, "spec", "previous").([]any); len(prev) > 0 {
		out += fmt.Sprintf(" previous=%v", prev)
	}
	return out
}

// genTemplateSpec draws phases, probes and success delay of one set/template.
func genTemplateSpec(w *World, g *OSGen, prof OSProfile, i int) map[string]any {
	s := w.Scn
	// phases
	nPh := 1 + s.Intn(3, "nPhases")
	used := map[int]bool{}
	var phases []any
	var allObjs []any
	for pi := 0; pi < nPh; pi++ {
		ph := map[string]any{"name": phaseName(pi)}
		if prof.DelegateMask&(1<<uint(pi)) != 0 {
			ph["class"] = "default"
		}
		if prof.Delegation {
			opts := []int{6, 3, 0}
			if w.Cfg.Hosted {
				opts[2] = 3
			}
			switch s.Weighted(opts, "phase-class") {
			case 1:
				ph["class"] = "default"
			case 2:
				ph["class"] = "hosted-cluster"
			}
		}
		nObj := 1 + s.Intn(3, "nObjects")
		var objs []any
		for oi := 0; oi < nObj; oi++ {
			idx := s.Intn(len(g.Pool), "pool-idx")
			if used[idx] {
				continue
			}
			used[idx] = true
			p := g.Pool[idx]
			explicit := ""
			if g.Cluster {
				explicit = nsMain
			} else if s.Chance(1, 4, "explicit-ns") {
				explicit = nsMain
			}
			variant := 1
			if s.Chance(1, 3, "variant") {
				variant = 1 + i
			}
			entry := map[string]any{"object": mkObject(p, variant, explicit)}
			if prof.StampedManifests && s.Chance(1, 4, "stamped-manifest") {
				// a manifest exported from a cluster and pasted into the spec still carries the bookkeeping
				// annotation of whoever managed it there; the revision recorded on the object is the owner's
				setAnnotation(entry["object"].(store.Obj), annRevision, []string{"1", "7"}[s.Intn(2, "stamped-value")])
			}
			if prof.CondMappings && s.Bool("condition-mapping") {
				entry["conditionMappings"] = []any{
					map[string]any{"sourceType": "Ready", "destinationType": "sim.example/Ready"},
					map[string]any{"sourceType": "Available", "destinationType": "sim.example/Available"},
				}
			}
			switch s.Weighted([]int{6, 2, 2}, "collision-protection") {
			case 1:
				entry["collisionProtection"] = "IfNoController"
			case 2:
				entry["collisionProtection"] = "None"
			}
			objs = append(objs, entry)
		}
		if prof.Violations && s.Chance(1, 3, "violator") {
			v := genViolator(w, g, s.Intn(7, "violator-kind"))
			if v != nil {
				at := s.Intn(len(objs)+1, "violator-pos")
				objs = append(objs[:at], append([]any{v}, objs[at:]...)...)
			}
		}
		if prof.Violations && len(allObjs) > 0 && s.Chance(1, 8, "duplicate") {
			objs = append(objs, store.Copy(map[string]any{"x": allObjs[s.Intn(len(allObjs), "dup-idx")]})["x"])
		}
		if len(objs) == 0 {
			continue
		}
		allObjs = append(allObjs, objs...)
		ph["objects"] = objs
		phases = append(phases, ph)
	}
	if len(phases) == 0 {
		p := g.Pool[0]
		explicit := ""
		if g.Cluster {
			explicit = nsMain
		}
		phases = []any{map[string]any{"name": phaseName(0), "objects": []any{map[string]any{"object": mkObject(p, 1, explicit)}}}}
	}
	// probes
	var probes []any
	for pi, p := range probePool {
		if pl, _ := p["probes"].([]any); len(pl) == 0 && !prof.EmptyProbeEntry {
			// an entry without probes passes on an object that has no status yet: whether a phase
			// gets through then depends on who is faster, the workload controller or PKO - fine
			// for per-pass rules, useless for differential end-state comparisons
			continue
		}
		if s.Chance(2, 3, "probe-"+strconv.Itoa(pi)) {
			probes = append(probes, store.Copy(p))
		}
	}
	spec := map[string]any{"phases": phases}
	if len(probes) > 0 {
		spec["availabilityProbes"] = probes
	}
	if s.Chance(1, 6, "success-delay") {
		spec["successDelaySeconds"] = int64(5 + s.Intn(60, "delay"))
	}
	return spec
}

// genViolator returns a phase entry that must fail preflight.
func genViolator(w *World, g *OSGen, kind int) map[string]any {
	explicit := ""
	if g.Cluster {
		explicit = nsMain
	}
	switch kind {
	case 0: // unknown API
		return map[string]any{"object": map[string]any{"apiVersion": "ghost.example/v1", "kind": "Ghost", "metadata": map[string]any{"name": "gh-a", "namespace": nsMain}}}
	case 1: // preset ownerReferences
		o := mkObject(poolObj{"ConfigMap", "v1", "cm-owned", "", false}, 1, explicit)
		ref := map[string]any{"apiVersion": "v1", "kind": "ConfigMap", "name": "someone", "uid": "uid-x"}
		switch w.Scn.Intn(3, "preset-owner-controller") {
		case 1:
			ref["controller"] = true
		case 2:
			ref["controller"] = false
		}
		store.Meta(o)["ownerReferences"] = []any{ref}
		return map[string]any{"object": o}
	case 2: // foreign namespace
		return map[string]any{"object": mkObject(poolObj{"ConfigMap", "v1", "cm-foreign", "", false}, 1, nsForeign)}
	case 3: // cluster-scoped kind without namespace
		return map[string]any{"object": mkObject(poolObj{"ClusterRole", "rbac.authorization.k8s.io/v1", "cr-v", "", true}, 1, "")}
	case 4: // cluster-scoped kind with the owner's namespace set
		o := mkObject(poolObj{"ClusterWidget", "sim.example/v1", "cw-v", "", true}, 1, "")
		store.Meta(o)["namespace"] = nsMain
		return map[string]any{"object": o}
	case 5: // rejected by the server-side dry run
		o := mkObject(poolObj{"Deployment", "apps/v1", "dep-invalid", "", false}, 1, explicit)
		o["spec"].(map[string]any)["simInvalid"] = true
		return map[string]any{"object": o}
	case 6: // namespaced kind without namespace under a cluster-scoped owner
		if g.Cluster {
			return map[string]any{"object": mkObject(poolObj{"ConfigMap", "v1", "cm-nons", "", false}, 1, "")}
		}
	}
	return nil
}

// sliceSet moves the objects of every phase of a (Cluster)ObjectSet into
// hand-made ObjectSlices (created right away) and rewrites the phases to
// reference them. No choices are consumed, so an inline and a sliced run of
// the same scenario stream describe the same objects.
func sliceSet(w *World, g *OSGen, set store.Obj) {
	kind := "ObjectSlice"
	if g.Cluster {
		kind = "ClusterObjectSlice"
	}
	name := store.Str(set, "metadata", "name")
	for _, px := range PhasesOf(set) {
		p, _ := px.(map[string]any)
		objs, _ := p["objects"].([]any)
		if len(objs) == 0 {
			continue
		}
		// first object stays inline when there are 3 or more; the rest is split into slices of at most 2
		var inline []any
		rest := objs
		if len(objs) >= 3 {
			inline, rest = objs[:1], objs[1:]
		}
		var names []any
		for i := 0; i < len(rest); i += 2 {
			end := i + 2
			if end > len(rest) {
				end = len(rest)
			}
			sn := fmt.Sprintf("%s-%s-%d", name, p["name"], i/2)
			sl := store.Obj{"apiVersion": PKOGroup + "/" + PKOVer, "kind": kind, "metadata": map[string]any{"name": sn}, "objects": store.Copy(map[string]any{"x": rest[i:end]})["x"]}
			if !g.Cluster {
				store.Meta(sl)["namespace"] = g.NS
			}
			_, err := w.TP("user", w.Mgmt).Create(sl)
			must(err)
			names = append(names, sn)
		}
		if len(inline) > 0 {
			p["objects"] = inline
		} else {
			delete(p, "objects")
		}
		p["slices"] = names
	}
}
