package cs

import (
	"fmt"
	"reflect"
	"sort"

	"package-operator.run/internal/packages/verifsim/store"
)

// MonC05: deletes hit only objects PKO controls, pinned to the inspected version.
type MonC05 struct{ BaseMon }

func (m *MonC05) ID() string { return "C05" }

func stripVolatile(o store.Obj) store.Obj {
	c := store.Copy(o)
	if mm, ok := c["metadata"].(map[string]any); ok {
		delete(mm, "resourceVersion")
		delete(mm, "generation")
		delete(mm, "managedFields")
		if l, ok := mm["ownerReferences"].([]any); ok {
			sorted := append([]any{}, l...)
			sort.SliceStable(sorted, func(i, j int) bool {
				a, _ := sorted[i].(map[string]any)
				b, _ := sorted[j].(map[string]any)
				return fmt.Sprint(a["uid"]) < fmt.Sprint(b["uid"])
			})
			mm["ownerReferences"] = sorted
		}
	}
	return store.Normalize(c)
}

func removeOwnerEntry(o store.Obj, owner store.Obj, strategy string) {
	uid := store.Str(owner, "metadata", "uid")
	if strategy == "annotation" {
		return // judged separately below (annotation JSON)
	}
	l, _ := store.Get(o, "metadata", "ownerReferences").([]any)
	var kept []any
	for _, x := range l {
		if mm, ok := x.(map[string]any); ok && mm["uid"] == uid {
			continue
		}
		kept = append(kept, x)
	}
	if len(kept) == 0 {
		delete(store.Meta(o), "ownerReferences")
	} else {
		store.Meta(o)["ownerReferences"] = kept
	}
}

func (m *MonC05) OnReq(w *World, r *Req) {
	p := r.Pass
	if p == nil || !r.IsWrite() || r.DryRun {
		return
	}
	if !isObjectSetKind(p.Ctrl) && !isPhaseKind(p.Ctrl) {
		return
	}
	owner := ownerOfPass(p)
	if owner == nil || !isTeardownOwner(owner) {
		return
	}
	if r.GVK.Group == PKOGroup && !isPhaseKind(r.GVK.Kind) {
		return // the owner itself, slices, ...
	}
	strategy, tc := strategyOf(p), targetCluster(p)
	managed := r.GVK.Group != PKOGroup
	if managed && r.Cluster != tc {
		return
	}
	orphan := store.HasFinalizer(owner, "orphan")
	if r.Verb == "delete" {
		m.touch()
		if orphan {
			w.Report(Violation{Property: "C05", Rule: "orphan-deleted", Sig: shortSite(r.Site), Seq: r.Seq,
				Msg: fmt.Sprintf("pass %d of %s %s issued a delete for %s although the owner is being deleted with orphan propagation", p.ID, p.Ctrl, p.Key, r.Key())})
			return
		}
		if managed || isPhaseKind(r.GVK.Kind) {
			obs, seen := p.LastSeen(r.Cluster, r.Key(), r.Seq)
			if !seen || obs == nil || r.PreUID == "" || r.PreRV == "" ||
				r.PreUID != store.Str(obs, "metadata", "uid") || r.PreRV != store.Str(obs, "metadata", "resourceVersion") {
				w.Report(Violation{Property: "C05", Rule: "precondition-missing", Sig: shortSite(r.Site), Seq: r.Seq,
					Msg: fmt.Sprintf("pass %d of %s %s deleted %s with preconditions uid=%q rv=%q; it had inspected uid=%q rv=%q", p.ID, p.Ctrl, p.Key, r.Key(), r.PreUID, r.PreRV,
						store.Str(obs, "metadata", "uid"), store.Str(obs, "metadata", "resourceVersion"))})
				return
			}
		}
		if r.Succeeded() && r.Before != nil {
			st := strategy
			if !managed {
				st = "native"
			}
			if !IsControlledBy(r.Before, owner, st) {
				w.Report(Violation{Property: "C05", Rule: "deleted-not-controlled", Sig: shortSite(r.Site) + "/" + staleTag(p, r), Seq: r.Seq,
					Msg: fmt.Sprintf("pass %d of %s %s deleted %s which at that instant was not controlled by it (owners %v)", p.ID, p.Ctrl, p.Key, r.Key(), Owners(r.Before, st))})
			}
		}
		return
	}
	if !managed || !r.Applied || r.Before == nil {
		return
	}
	m.touch()
	if !IsOwnedBy(r.Before, owner, strategy) {
		if r.Succeeded() {
			w.Report(Violation{Property: "C05", Rule: "foreign-touched", Sig: shortSite(r.Site) + "/" + staleTag(p, r), Seq: r.Seq,
				Msg: fmt.Sprintf("teardown pass %d of %s %s issued %s on %s which at that instant it neither owned nor controlled (owners %v)", p.ID, p.Ctrl, p.Key, r.Verb, r.Key(), Owners(r.Before, strategy))})
		}
		return
	}
	if !r.Succeeded() || r.After == nil || IsControlledBy(r.Before, owner, strategy) {
		return
	}
	// co-owned: only the own owner entry and the cache label may disappear
	want := store.Copy(r.Before)
	removeOwnerEntry(want, owner, strategy)
	if l, ok := store.Get(want, "metadata", "labels").(map[string]any); ok {
		delete(l, lblCache)
		if len(l) == 0 {
			delete(store.Meta(want), "labels")
		}
	}
	got := store.Copy(r.After)
	if strategy == "annotation" {
		// owner entries live in an annotation: compare owner sets instead of raw JSON
		wa, ga := Owners(want, strategy), Owners(got, strategy)
		var wf []OwnerRef
		for _, o := range wa {
			if !o.Is(owner) {
				wf = append(wf, o)
			}
		}
		var gf []OwnerRef
		for _, o := range ga {
			if !o.Is(owner) {
				gf = append(gf, o)
			}
		}
		if !reflect.DeepEqual(wf, gf) {
			w.Report(Violation{Property: "C05", Rule: "co-owned-touched", Sig: shortSite(r.Site) + "/owners/" + staleTag(p, r), Seq: r.Seq,
				Msg: fmt.Sprintf("teardown pass %d of %s %s changed the other owners of co-owned %s: before %v after %v", p.ID, p.Ctrl, p.Key, r.Key(), wa, ga)})
			return
		}
		setAnnotation(want, annOwners, "")
		setAnnotation(got, annOwners, "")
	}
	// "at most ... the cache label": it may go or stay; removing it may leave an empty map
	if l, ok := store.Get(got, "metadata", "labels").(map[string]any); ok {
		delete(l, lblCache)
		if len(l) == 0 {
			delete(store.Meta(got), "labels")
		}
	}
	if a, ok := store.Get(got, "metadata", "annotations").(map[string]any); ok && len(a) == 0 {
		delete(store.Meta(got), "annotations")
	}
	if a, ok := store.Get(want, "metadata", "annotations").(map[string]any); ok && len(a) == 0 {
		delete(store.Meta(want), "annotations")
	}
	ws, gs := stripVolatile(want), stripVolatile(got)
	if !reflect.DeepEqual(ws, gs) {
		// the own entry may also be kept (nothing removed): compare against unchanged too
		w.Report(Violation{Property: "C05", Rule: "co-owned-touched", Sig: shortSite(r.Site) + "/" + staleTag(p, r), Seq: r.Seq,
			Msg: fmt.Sprintf("teardown pass %d of %s %s changed more than its own owner entry and the cache label on co-owned %s: expected %v got %v", p.ID, p.Ctrl, p.Key, r.Key(), ws["metadata"], gs["metadata"])})
	}
}
