package cs

import (
	"fmt"

	"package-operator.run/internal/packages/verifsim/store"
)

// ODProfile selects what the ObjectDeployment scenario family varies.
type ODProfile struct {
	MaxEdits   int
	Pause      bool
	Delegation bool
	NeverReady bool
	EmptyStart bool // the deployment may start with a template without phases
	Limits     bool // vary revisionHistoryLimit
	Slices     bool
	// FinalDelete may end the scenario with the deletion of the deployment (cascading teardown through the garbage collector).
	FinalDelete bool
	// HostileLimits: revisionHistoryLimit takes legal but absurd values (negative, huge).
	HostileLimits bool
	// SliceDrift adds a third party that deletes ObjectSlices (only with Slices).
	SliceDrift bool
	// Namesake may add a second deployment with the same name, selector and labels in another namespace.
	Namesake bool
}

// ODGen is the generated ObjectDeployment scenario.
type ODGen struct {
	OS        *OSGen
	Kind      string // ObjectDeployment / ClusterObjectDeployment
	SetKind   string
	Key       store.Key
	Templates []map[string]any
}

func (g *ODGen) setTemplate(w *World, idx int) {
	tpl := store.Copy(g.Templates[idx])
	_, _ = w.TP("user", w.Mgmt).Mutate(g.Key, func(o store.Obj) {
		sp, _ := o["spec"].(map[string]any)
		t, _ := sp["template"].(map[string]any)
		t["spec"] = tpl
	})
}

// GenOD generates one (Cluster)ObjectDeployment whose template the user edits over time.
func GenOD(w *World, prof ODProfile) *Scenario {
	s := w.Scn
	sc := &Scenario{Family: "S-OD", Facts: map[string]any{}}
	og := &OSGen{ExpRev: map[string]int64{}}
	og.Cluster = s.Chance(1, 4, "cluster-scoped")
	og.Kind, og.NS = "ObjectSet", nsMain
	og.Pool = append([]poolObj{}, nsPool...)
	g := &ODGen{OS: og, Kind: "ObjectDeployment", SetKind: "ObjectSet"}
	if og.Cluster {
		og.Kind, og.NS = "ClusterObjectSet", ""
		og.Pool = append(og.Pool, clusterExtra...)
		g.Kind, g.SetKind = "ClusterObjectDeployment", "ClusterObjectSet"
	}
	sc.Facts["os"] = og
	sc.Facts["od"] = g
	g.Key = store.Key{Group: PKOGroup, Kind: g.Kind, Namespace: og.NS, Name: "od-1"}
	user := w.TP("user", w.Mgmt)
	for _, ns := range []string{nsMain, nsForeign} {
		_, err := user.Create(store.Obj{"apiVersion": "v1", "kind": "Namespace", "metadata": map[string]any{"name": ns}})
		must(err)
		if w.Host != nil {
			_, err := w.TP("user", w.Host).Create(store.Obj{"apiVersion": "v1", "kind": "Namespace", "metadata": map[string]any{"name": ns}})
			must(err)
		}
	}
	nT := 2 + s.Intn(3, "nTemplates")
	osProf := OSProfile{Delegation: prof.Delegation}
	for i := 0; i < nT; i++ {
		g.Templates = append(g.Templates, genTemplateSpec(w, og, osProf, i))
	}
	if prof.Slices {
		for i, t := range g.Templates {
			holder := store.Obj{"kind": og.Kind, "metadata": map[string]any{"name": fmt.Sprintf("od-1-t%d", i)}, "spec": t}
			sliceSet(w, og, holder)
		}
	}
	wl := &WorkloadAgent{Cluster: "mgmt", Policy: map[store.Key]string{}, Budget: s.Intn(8, "workload-budget")}
	og.Workload = wl
	if prof.NeverReady {
		for _, p := range og.Pool {
			if p.gvkKind == "Deployment" || p.gvkKind == "Widget" || p.gvkKind == "ClusterWidget" {
				k := store.Key{Group: groupOf(p.api), Kind: p.gvkKind, Namespace: nsMain, Name: p.name}
				if p.cluster {
					k.Namespace = ""
				}
				switch s.Weighted([]int{6, 3, 1}, "workload-policy") {
				case 1:
					wl.Policy[k] = "never"
				case 2:
					wl.Policy[k] = "stale"
				}
			}
		}
	}
	spec := map[string]any{
		"selector": map[string]any{"matchLabels": map[string]any{"app": "od-1"}},
		"template": map[string]any{"metadata": map[string]any{"labels": map[string]any{"app": "od-1"}}, "spec": map[string]any{}},
	}
	start := -1
	if !(prof.EmptyStart && s.Chance(1, 5, "empty-start")) {
		start = s.Intn(nT, "start-template")
		spec["template"].(map[string]any)["spec"] = store.Copy(g.Templates[start])
	}
	if prof.HostileLimits {
		// values the CRD schema accepts although they make no sense
		spec["revisionHistoryLimit"] = []int64{-1, -7, 2147483647, 0}[s.Intn(4, "hostile-history-limit")]
	} else if prof.Limits {
		switch s.Intn(4, "history-limit") {
		case 0:
			spec["revisionHistoryLimit"] = int64(0)
		case 1:
			spec["revisionHistoryLimit"] = int64(1)
		case 2:
			spec["revisionHistoryLimit"] = int64(2)
		}
	}
	if prof.Pause && s.Chance(1, 8, "start-paused") {
		spec["paused"] = true
	}
	od := store.Obj{"apiVersion": PKOGroup + "/" + PKOVer, "kind": g.Kind, "metadata": map[string]any{"name": "od-1"}, "spec": spec}
	if !og.Cluster {
		store.Meta(od)["namespace"] = og.NS
	}
	_, err := user.Create(od)
	must(err)
	sc.Desc = append(sc.Desc, fmt.Sprintf("%s od-1 start template=%d limit=%v paused=%v", g.Kind, start, spec["revisionHistoryLimit"], spec["paused"]))
	for i, t := range g.Templates {
		sc.Desc = append(sc.Desc, fmt.Sprintf("template %d: %s", i, describeSet(store.Obj{"kind": "T", "metadata": map[string]any{"name": fmt.Sprint(i)}, "spec": t})))
	}
	nE := s.Intn(prof.MaxEdits+1, "nEdits")
	// ping-pong: the template goes back and forth between two contents several times
	// (A, B, A, B, A ...), so that a name freed by the collision counter is asked for again
	pingPong := prof.EmptyStart && nT >= 2 && s.Chance(1, 5, "ping-pong")
	if pingPong {
		nE = 4 + s.Intn(3, "ping-pong-edits")
	}
	cur := start
	for i := 0; i < nE; i++ {
		kind := 0
		if prof.Pause && !pingPong {
			kind = s.Weighted([]int{6, 2, 2, 1}, "edit-kind")
		}
		switch kind {
		case 0:
			if prof.EmptyStart && s.Chance(1, 8, "edit-to-empty") {
				// the CRD allows going back to a template without phases: no revision is created for it
				cur = -1
				sc.UserOps = append(sc.UserOps, UserOp{Label: "edit template -> empty", Do: func(w *World) {
					_, _ = w.TP("user", w.Mgmt).Mutate(g.Key, func(o store.Obj) {
						sp, _ := o["spec"].(map[string]any)
						t, _ := sp["template"].(map[string]any)
						t["spec"] = map[string]any{}
					})
				}})
				continue
			}
			idx := s.Intn(nT, "edit-template")
			if pingPong {
				idx = (i + 1) % 2
				if start == 1 || start < 0 {
					idx = i % 2
				}
			}
			what := "edit"
			if idx == cur {
				what = "no-op edit"
			}
			cur = idx
			sc.UserOps = append(sc.UserOps, UserOp{Label: fmt.Sprintf("%s template -> %d", what, idx), Do: func(w *World) { g.setTemplate(w, idx) }})
		case 1:
			sc.UserOps = append(sc.UserOps, UserOp{Label: "pause od-1", Do: func(w *World) {
				_, _ = w.TP("user", w.Mgmt).Mutate(g.Key, func(o store.Obj) { o["spec"].(map[string]any)["paused"] = true })
			}})
		case 2:
			sc.UserOps = append(sc.UserOps, UserOp{Label: "unpause od-1", Do: func(w *World) {
				_, _ = w.TP("user", w.Mgmt).Mutate(g.Key, func(o store.Obj) { delete(o["spec"].(map[string]any), "paused") })
			}})
		case 3:
			// somebody sets the lifecycleState of the newest non-archived revision back to Active by hand
			sc.UserOps = append(sc.UserOps, UserOp{Label: "activate newest revision by hand (if the deployment is paused)", Do: func(w *World) {
				od, ok := w.Mgmt.Objs[g.Key]
				if !ok {
					return
				}
				if b, _ := store.Get(od, "spec", "paused").(bool); !b {
					return // only while the deployment is paused: the parent has to re-assert its pause
				}
				var newest store.Obj
				for _, st := range setsOfDeployment(w.Mgmt.Objs, od) {
					if store.Str(st, "spec", "lifecycleState") == "Archived" || store.Deleting(st) {
						continue
					}
					if newest == nil || store.Int(st, "status", "revision") > store.Int(newest, "status", "revision") {
						newest = st
					}
				}
				if newest != nil {
					_, _ = w.TP("user", w.Mgmt).Mutate(store.KeyOf(newest), func(o store.Obj) { o["spec"].(map[string]any)["lifecycleState"] = "Active" })
				}
			}})
		}
	}
	if prof.Namesake && !og.Cluster && s.Chance(1, 3, "namesake") {
		// the same deployment name, selector and revision labels in another namespace: nothing of it
		// belongs to od-1 in ns1, and nothing of od-1 belongs to it
		tw := func(v string) map[string]any {
			return map[string]any{"phases": []any{map[string]any{"name": "alpha", "objects": []any{map[string]any{"object": map[string]any{
				"apiVersion": "v1", "kind": "ConfigMap", "metadata": map[string]any{"name": "twin-cm"}, "data": map[string]any{"k": v}}}}}}}
		}
		twin := store.Obj{"apiVersion": PKOGroup + "/" + PKOVer, "kind": g.Kind, "metadata": map[string]any{"name": "od-1", "namespace": nsForeign},
			"spec": map[string]any{
				"selector": map[string]any{"matchLabels": map[string]any{"app": "od-1"}},
				"template": map[string]any{"metadata": map[string]any{"labels": map[string]any{"app": "od-1"}}, "spec": tw("v1")},
			}}
		_, err := user.Create(twin)
		must(err)
		sc.Desc = append(sc.Desc, "namesake: ObjectDeployment od-1 in "+nsForeign+" (ConfigMap twin-cm)")
		if s.Bool("namesake-edit") {
			tk := store.Key{Group: PKOGroup, Kind: g.Kind, Namespace: nsForeign, Name: "od-1"}
			op := UserOp{Label: "edit template of the namesake in " + nsForeign, Do: func(w *World) {
				_, _ = w.TP("user", w.Mgmt).Mutate(tk, func(o store.Obj) {
					o["spec"].(map[string]any)["template"].(map[string]any)["spec"] = tw("v2")
				})
			}}
			at := s.Intn(len(sc.UserOps)+1, "namesake-edit-at")
			sc.UserOps = append(sc.UserOps[:at], append([]UserOp{op}, sc.UserOps[at:]...)...)
		}
	}
	if prof.FinalDelete && s.Chance(2, 3, "final-delete") {
		prop := []string{"Background", "Foreground"}[s.Intn(2, "delete-propagation")]
		sc.UserOps = append(sc.UserOps, UserOp{Label: fmt.Sprintf("delete od-1 (%s)", prop), Do: func(w *World) {
			_ = w.TP("user", w.Mgmt).Delete(g.Key, prop)
		}})
	}
	w.AddAgent(wl)
	if w.Host != nil {
		w.AddAgent(&WorkloadAgent{Cluster: "hosted", Policy: wl.Policy, Budget: wl.Budget})
	}
	if prof.Slices && prof.SliceDrift {
		w.AddAgent(&SliceKiller{Budget: 1 + s.Intn(2, "slice-killer-budget")})
	}
	w.AddAgent(&GCAgent{Cluster: "mgmt"})
	return sc
}

// setsOfDeployment lists the ObjectSets in objs controlled by the deployment (by uid).
func setsOfDeployment(objs map[store.Key]store.Obj, od store.Obj) []store.Obj {
	var out []store.Obj
	uid := store.Str(od, "metadata", "uid")
	for _, k := range sortedKeys(objs) {
		if k.Group != PKOGroup || !isObjectSetKind(k.Kind) {
			continue
		}
		o := objs[k]
		for _, c := range Controllers(o, "native") {
			if c.UID == uid {
				out = append(out, o)
			}
		}
	}
	return out
}
