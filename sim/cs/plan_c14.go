package cs

import (
	"fmt"
	"reflect"
	"sort"
	"strings"

	"package-operator.run/internal/packages/verifsim/choice"
	"package-operator.run/internal/packages/verifsim/store"
)

func init() { Plans["C14"] = planC14 }

// MonC14: ObjectSlices are a transparent, lossless encoding of phase objects.
type MonC14 struct {
	BaseMon
	content map[string]string // slice key -> content
}

func (m *MonC14) ID() string { return "C14" }

func isSliceKind(k string) bool { return k == "ObjectSlice" || k == "ClusterObjectSlice" }

func (m *MonC14) OnReq(w *World, r *Req) {
	if r.Verb == "list" && isSliceKind(r.GVK.Kind) && siteHas(r, "sliceGarbageCollection") {
		// reach probes: what the garbage collection decision has to respect at this moment
		arch, act := 0, 0
		for k, o := range w.Mgmt.Objs {
			if k.Group != PKOGroup || !isObjectSetKind(k.Kind) || !hasSlices(o) {
				continue
			}
			if store.Str(o, "spec", "lifecycleState") == "Archived" {
				arch++
			} else {
				act++
			}
		}
		w.Stats.Probe("c14-slice-gc-decision")
		if arch > 0 {
			w.Stats.Probe("c14-slice-gc-with-archived-sliced-revision")
		}
		if act > 1 {
			w.Stats.Probe("c14-slice-gc-with-several-live-sliced-revisions")
		}
	}
	if r.GVK.Group != PKOGroup || !isSliceKind(r.GVK.Kind) || !r.Succeeded() || r.DryRun {
		return
	}
	if m.content == nil {
		m.content = map[string]string{}
	}
	k := r.Key().String()
	if r.Verb == "create" && r.After != nil && r.Pass != nil {
		// names are determined by content: the same content is not stored a second time under
		// another name while the first slice of the same deployment is still there
		c := fmt.Sprint(r.After["objects"])
		for _, ok := range sortedKeys(w.Mgmt.Objs) {
			if ok.Group != PKOGroup || !isSliceKind(ok.Kind) || ok.Namespace != r.NS || ok == r.Key() {
				continue
			}
			other := w.Mgmt.Objs[ok]
			if store.Deleting(other) || fmt.Sprint(other["objects"]) != c {
				continue
			}
			same := false
			for _, a := range Controllers(other, "native") {
				for _, b := range Controllers(r.After, "native") {
					if a.UID == b.UID {
						same = true
					}
				}
			}
			if same {
				m.touch()
				w.Report(Violation{Property: "C14", Rule: "content-renamed", Sig: shortSite(r.Site), Seq: r.Seq,
					Msg: fmt.Sprintf("%s created slice %s with exactly the content of the existing slice %s of the same deployment: slice names are determined by content", r.Actor, r.Key(), ok)})
				return
			}
		}
	}
	switch {
	case r.After != nil && r.Changed:
		c := fmt.Sprint(r.After["objects"])
		if old, ok := m.content[k]; ok && old != c && r.Pass != nil {
			m.touch()
			w.Report(Violation{Property: "C14", Rule: "name-reused", Sig: shortSite(r.Site), Seq: r.Seq,
				Msg: fmt.Sprintf("slice %s was bound to different content by %s", k, r.Actor)})
		}
		m.content[k] = c
	case r.Verb == "delete" && r.Pass != nil:
		// slice-gc-referenced: not referenced by any stored ObjectSet or deployment template
		m.touch()
		for _, ok := range sortedKeys(w.Mgmt.Objs) {
			if ok.Group != PKOGroup || ok.Namespace != r.NS {
				continue
			}
			o := w.Mgmt.Objs[ok]
			var phases []any
			switch {
			case isObjectSetKind(ok.Kind):
				phases = PhasesOf(o)
			case isODKind(ok.Kind):
				phases, _ = store.Get(o, "spec", "template", "spec", "phases").([]any)
			default:
				continue
			}
			for _, px := range phases {
				pm, _ := px.(map[string]any)
				sl, _ := pm["slices"].([]any)
				for _, sx := range sl {
					if sx == r.Name {
						// what did the deleting pass itself know about the holder of the reference?
						how := "template"
						if isObjectSetKind(ok.Kind) {
							how = "unlisted-set" // created after (or invisible to) the pass's listing of ObjectSets
							if seen, found := r.Pass.LastSeen("mgmt", ok, r.Seq); found && seen != nil {
								how = "listed-set-without-reference"
								for _, spx := range PhasesOf(seen) {
									spm, _ := spx.(map[string]any)
									ssl, _ := spm["slices"].([]any)
									for _, ssx := range ssl {
										if ssx == r.Name {
											how = "listed-set"
										}
									}
								}
							}
						}
						w.Report(Violation{Property: "C14", Rule: "slice-gc-referenced", Sig: shortSite(r.Site) + "/" + how, Seq: r.Seq,
							Msg: fmt.Sprintf("%s deleted slice %s while %s still references it (%s: what the deleting pass had seen of that object)", r.Actor, k, ok, how)})
						return
					}
				}
			}
		}
	}
}

// stuckTeardown: an ObjectSet that lists objects through slices must get through
// deletion/archival like an inline one. At quiescence (no store change over two
// rounds of every pending timer) an ObjectSet that is being deleted or archived
// and whose last pass failed on its ObjectSlices will never finish.
func (m *MonC14) stuckTeardown(w *World) {
	for _, k := range sortedKeys(w.Mgmt.Objs) {
		if k.Group != PKOGroup || !isObjectSetKind(k.Kind) {
			continue
		}
		o := w.Mgmt.Objs[k]
		archived := store.Str(o, "spec", "lifecycleState") == "Archived"
		if !store.Deleting(o) && !archived {
			continue
		}
		if archived && !store.Deleting(o) {
			if c := FindCond(o, "Archived"); c != nil && c.Status == "True" {
				continue
			}
		}
		var last *Pass
		for _, p := range w.Passes {
			if p.Done && p.Ctrl == k.Kind && p.Key.Name == k.Name && p.Key.Namespace == k.Namespace {
				last = p
			}
		}
		if last == nil || last.Err == nil || last.Faulted || last.Crashed || !strings.Contains(last.Err.Error(), "ObjectSlice") {
			continue
		}
		m.touch()
		what := "deleted"
		if !store.Deleting(o) {
			what = "archived"
		}
		w.Report(Violation{Property: "C14", Rule: "sliced-teardown-stuck", Sig: what, Seq: last.EndSeq,
			Msg: fmt.Sprintf("at quiescence %s is %s but its teardown cannot finish: pass %d ended with %q; the same ObjectSet with inline objects has nothing that can block its teardown this way", k, what, last.ID, last.Err.Error())})
		return
	}
}

// OnQuiescent checks, for package scenarios, that the in-order concatenation of
// the slices of every template phase equals the rendered phase (the generator
// knows what every admissible spec renders to).
func (m *MonC14) OnQuiescent(w *World, epoch int) {
	m.stuckTeardown(w)
	g := pkgGen(w)
	if g == nil {
		return
	}
	for _, key := range g.Keys {
		pkg, ok := w.Mgmt.Objs[key]
		if !ok || store.Deleting(pkg) {
			continue
		}
		if b, _ := store.Get(pkg, "spec", "paused").(bool); b {
			continue
		}
		adm, _, img := admissibleFor(w, pkg)
		if !adm {
			continue
		}
		odKind := "ObjectDeployment"
		if g.Cluster {
			odKind = "ClusterObjectDeployment"
		}
		od := w.Mgmt.Objs[store.Key{Group: PKOGroup, Kind: odKind, Namespace: key.Namespace, Name: key.Name}]
		if od == nil {
			continue
		}
		m.touch()
		want := img.ExpectedObjects(key.Name, pkg["spec"].(map[string]any))
		got := templateObjects(w, od)
		if !reflect.DeepEqual(want, got) {
			w.Report(Violation{Property: "C14", Rule: "concat-differs", Sig: store.Annotations(pkg)["packages.package-operator.run/chunking-strategy"], Msg: fmt.Sprintf("at quiescence the slices of %s concatenate to %v, the rendered package lists %v", key, got, want)})
		}
		if tplPhases, _ := store.Get(od, "spec", "template", "spec", "phases").([]any); len(tplPhases) > 0 {
			for _, px := range tplPhases {
				pm, _ := px.(map[string]any)
				if sl, _ := pm["slices"].([]any); len(sl) > 0 {
					w.Stats.Probe("c14-template-sliced")
				}
			}
		}
	}
}

// writeOrder is, per acting owner (ObjectSet / ObjectSetPhase), the sequence of
// delete events it caused on managed objects, at phase granularity.
// Interleaving between different owners is a scheduling matter and is not
// compared; neither are creates: which of several active revisions re-creates
// an object after a newer one was deleted is a legitimate race.
func (w *World) writeOrder() map[string][]string {
	out := map[string][]string{}
	for _, r := range w.Hist {
		if r.Pass == nil || r.DryRun || !r.IsWrite() || !r.Succeeded() || !r.Changed || r.GVK.Group == PKOGroup {
			continue
		}
		what := ""
		switch {
		case r.Verb == "delete":
			what = "delete"
		default:
			continue
		}
		owner := r.Pass.Ctrl + " " + r.Pass.Key.String()
		// phase granularity: objects of one phase are interchangeable
		e := what + " " + r.Cluster + " " + r.Key().String()
		if g, ok := w.Scenario.Facts["os"].(*OSGen); ok && isObjectSetKind(r.Pass.Ctrl) {
			k := r.Key()
			if k.Namespace == "" {
				k.Namespace = g.NS
			}
			for _, cand := range []store.Key{r.Key(), k, {Group: k.Group, Kind: k.Kind, Namespace: nsMain, Name: k.Name}} {
				if ph, ok := g.PhaseOf[r.Pass.Key.Name][cand.String()]; ok {
					e = fmt.Sprintf("%s phase %d", what, ph)
					break
				}
			}
		} else if isPhaseKind(r.Pass.Ctrl) {
			e = what + " phase-object"
		}
		l := out[owner]
		if len(l) == 0 || l[len(l)-1] != e {
			out[owner] = append(l, e)
		}
	}
	return out
}

func projectionForSlices(w *World) map[string]string {
	out := w.projection(true)
	for k, v := range out {
		out[k] = stripLatched(v)
	}
	return out
}

func c14Scenario(w *World, sliced int, sliceDrift bool) {
	s := w.Scn
	w.setupCommon(5)
	w.drawFaultMix("err-before", "lost-response", "crash", "compaction", "duplicate")
	w.Cfg.Faults["drift"] = !w.Cfg.FaultFree
	w.Cfg.Ndist = 60 + s.Intn(300, "ndist")
	w.Scenario = GenOS(w, OSProfile{MaxSets: 3, Delegation: true, Lifecycle: true, LateCreate: true, AllLate: true, CompletePrev: true, OldestFirst: true, Sliced: sliced, NeverReady: s.Bool("never-ready"), SliceDrift: sliceDrift, Intruder: map[bool]string{true: "granular", false: ""}[sliceDrift], DriftOnly: true})
}

func planC14(w *World, spec RunSpec) {
	// mode A (differential): inline vs sliced, both undisturbed, fair scheduler
	// mode B (monitored): sliced scenario under faults with C03-C06/C08 monitors relabelled
	if spec.Index%2 == 0 {
		w.Cfg.FaultFree = true
		c14Scenario(w, 1, false)
		w.Cfg.UserOpsAtQuiescence = true
		w.Cfg.FaultBudget = 0
		for k := range w.Cfg.Faults {
			delete(w.Cfg.Faults, k)
		}
		prefix := append([]uint32{}, w.Scn.Rec...)
		refCfg := &Config{Property: "C14-inline", StopOn: "none", FaultFree: true, Faults: map[string]bool{}, NoFaultWeight: 200, MaxSteps: w.Cfg.MaxSteps, CalmBudget: w.Cfg.CalmBudget, Trace: w.Cfg.Trace}
		ref := NewWorld(refCfg, choice.NewReplay(nil), choice.NewReplay(prefix))
		c14Scenario(ref, 0, false)
		ref.Monitors = nil
		ref.Cfg.UserOpsAtQuiescence = true
		ref.Cfg.FaultBudget = 0
		for k := range ref.Cfg.Faults {
			delete(ref.Cfg.Faults, k)
		}
		defer ref.Shutdown()
		defer func() {
			if w.Cfg.Trace && len(w.Viol) > 0 {
				w.trace = append(w.trace, "---- inline run of the same scenario ----")
				for _, l := range ref.trace {
					w.trace = append(w.trace, "INLINE "+l)
				}
			}
		}()
		ref.StartProcesses()
		w.StartProcesses()
		nOps := len(w.Scenario.UserOps)
		for epoch := 0; epoch <= nOps; epoch++ {
			w.epoch = epoch
			if epoch > 0 {
				ref.applyNextUserOp()
				w.applyNextUserOp()
			}
			if !ref.settleWithResync() || !w.settleWithResync() {
				if !w.stopNow {
					w.Stats.Inconclusive = true
				}
				return
			}
			if w.stopNow {
				return
			}
			for _, m := range w.Monitors {
				if m.ID() == "C14" {
					m.(*MonC14).touch()
				}
			}
			if diff := DiffProjection(projectionForSlices(ref), projectionForSlices(w)); len(diff) > 0 {
				n := len(diff)
				if n > 3 {
					diff = diff[:3]
				}
				w.Report(Violation{Property: "C14", Rule: "sliced-differs", Sig: "state/" + diffKind(diff[0]), Msg: fmt.Sprintf("epoch %d: sliced run differs from the inline run of the same scenario in %d places: %v", epoch, n, diff)})
				return
			}
			if a, b := ref.writeOrder(), w.writeOrder(); !reflect.DeepEqual(a, b) {
				owners := map[string]bool{}
				for k := range a {
					owners[k] = true
				}
				for k := range b {
					owners[k] = true
				}
				var names []string
				for k := range owners {
					names = append(names, k)
				}
				sort.Strings(names)
				for _, o := range names {
					if !reflect.DeepEqual(a[o], b[o]) {
						w.Report(Violation{Property: "C14", Rule: "sliced-differs", Sig: "write-order", Msg: fmt.Sprintf("epoch %d: create/delete order of %s differs: inline %v, sliced %v", epoch, o, a[o], b[o])})
						return
					}
				}
			}
		}
		return
	}
	if spec.Index%8 == 5 {
		// packages: chunking strategies, slice names, slice garbage collection
		s := w.Scn
		w.setupCommon(0)
		w.Cfg.Packages = true
		w.drawFaultMix("err-before", "lost-response", "crash", "compaction", "duplicate", "pull-error")
		w.Cfg.Ndist = 120 + s.Intn(500, "ndist")
		if s.Bool("slice-heavy") {
			// several sliced revisions alive or archived while the template keeps changing
			w.Scenario = GenPKG(w, 6, "final-delete", "slice-heavy", "squatter", "namesake")
			if s.Bool("paced") {
				// every edit waits for the rollout of the previous one: older sliced revisions are
				// archived (and still exist) when the next garbage collection decision is taken
				w.Cfg.UserOpsAtQuiescence = true
				w.Cfg.StopOn = "C14"
				w.StartProcesses()
				nOps := len(w.Scenario.UserOps)
				for i := 0; i <= nOps && !w.stopNow; i++ {
					if i > 0 {
						w.applyNextUserOp()
					}
					w.Disturb(w.Cfg.Ndist / (nOps + 1))
					if !w.Settle(w.Cfg.CalmBudget) {
						if !w.stopNow {
							w.Stats.Inconclusive = true
						}
						return
					}
					for _, m := range w.Monitors {
						m.OnQuiescent(w, i)
					}
				}
				w.finish()
				return
			}
		} else {
			w.Scenario = GenPKG(w, 5, "final-delete", "squatter", "namesake")
		}
	} else if spec.Index%4 == 3 {
		s := w.Scn
		w.setupCommon(6)
		w.drawFaultMix("err-before", "lost-response", "crash", "compaction", "duplicate")
		w.Cfg.Faults["drift"] = !w.Cfg.FaultFree
		w.Cfg.Ndist = 150 + s.Intn(500, "ndist")
		w.Scenario = GenOD(w, ODProfile{MaxEdits: 5, Limits: true, NeverReady: !s.Chance(1, 4, "all-ready"), Slices: true, FinalDelete: true})
	} else {
		c14Scenario(w, 1, w.Scn.Bool("slice-drift"))
	}
	w.Cfg.StopOn = "C14"
	w.StartProcesses()
	w.Disturb(w.Cfg.Ndist)
	w.finish()
}
