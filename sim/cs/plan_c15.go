package cs

import (
	"fmt"
	"reflect"
	"sort"
	"strings"

	"package-operator.run/internal/packages/verifsim/choice"
	"package-operator.run/internal/packages/verifsim/store"
)

func init() { Plans["C15"] = planC15 }

// MonC15: delegating a phase to an ObjectSetPhase preserves behaviour.
type MonC15 struct{ BaseMon }

func (m *MonC15) ID() string { return "C15" }

func (m *MonC15) OnReq(w *World, r *Req) {
	p := r.Pass
	if p == nil || !isObjectSetKind(p.Ctrl) || !isPhaseKind(r.GVK.Kind) || r.GVK.Group != PKOGroup || r.DryRun {
		return
	}
	owner := ownerOfPass(p)
	if owner == nil {
		return
	}
	switch r.Verb {
	case "create":
		if !r.Succeeded() || r.After == nil {
			return
		}
		m.touch()
		bad := func(what string) {
			w.Report(Violation{Property: "C15", Rule: "phase-fields", Sig: what, Seq: r.Seq,
				Msg: fmt.Sprintf("pass %d of %s %s created phase object %s with wrong %s", p.ID, p.Ctrl, p.Key, r.Key(), what)})
		}
		// which phase is it
		var ph map[string]any
		for _, px := range PhasesOf(owner) {
			pm, _ := px.(map[string]any)
			if phaseObjectKey(owner, fmt.Sprint(pm["name"])) == r.Key() {
				ph = pm
			}
		}
		if ph == nil {
			w.Report(Violation{Property: "C15", Rule: "phase-object-count", Sig: "unknown-phase", Seq: r.Seq,
				Msg: fmt.Sprintf("pass %d of %s %s created %s which corresponds to none of its phases", p.ID, p.Ctrl, p.Key, r.Key())})
			return
		}
		if c, _ := ph["class"].(string); c == "" {
			w.Report(Violation{Property: "C15", Rule: "phase-object-count", Sig: "local-phase", Seq: r.Seq,
				Msg: fmt.Sprintf("pass %d of %s %s created a phase object for the in-process phase %v", p.ID, p.Ctrl, p.Key, ph["name"])})
			return
		}
		if !IsControlledBy(r.After, owner, "native") {
			bad("controller reference")
			return
		}
		if store.Labels(r.After)["package-operator.run/phase-class"] != ph["class"] {
			bad("class label")
			return
		}
		// objects: inline objects plus those loaded from slices in this pass
		want := SpecObjects(store.Obj{"kind": store.Str(owner, "kind"), "metadata": owner["metadata"], "spec": map[string]any{"phases": []any{ph}}}, passSliceLookup(w, p, owner))
		got := SpecObjects(r.After, nil)
		if len(want) != len(got) {
			bad("objects")
			return
		}
		for i := range want {
			if !reflect.DeepEqual(store.Normalize(want[i].Obj), store.Normalize(got[i].Obj)) || want[i].Collision != got[i].Collision {
				bad("objects")
				return
			}
		}
		if !reflect.DeepEqual(normList(store.Get(owner, "spec", "availabilityProbes")), normList(store.Get(r.After, "spec", "availabilityProbes"))) {
			bad("availabilityProbes")
			return
		}
		if !reflect.DeepEqual(normList(store.Get(owner, "spec", "previous")), normList(store.Get(r.After, "spec", "previous"))) {
			bad("previous")
			return
		}
		if rev := ownerRevision(p, owner); rev != 0 && store.Int(r.After, "spec", "revision") != rev {
			bad("revision")
			return
		}
		pz, _ := store.Get(r.After, "spec", "paused").(bool)
		if pz != isSpecPaused(owner) {
			bad("paused state")
		}
	case "patch":
		// pause propagation: the patch must carry the owner's paused state
		if v, ok := store.Get(r.Body, "spec", "paused").(bool); ok && r.Succeeded() {
			m.touch()
			if v != isSpecPaused(owner) {
				w.Report(Violation{Property: "C15", Rule: "phase-fields", Sig: "paused-patch", Seq: r.Seq,
					Msg: fmt.Sprintf("pass %d of %s %s patched phase object %s to paused=%v while the ObjectSet it read is paused=%v", p.ID, p.Ctrl, p.Key, r.Key(), v, isSpecPaused(owner))})
			}
		}
	}
}

func normList(v any) any {
	l, _ := v.([]any)
	if len(l) == 0 {
		return nil
	}
	return store.Normalize(map[string]any{"x": l})["x"]
}

// projectionForDelegation maps control through phase objects back to the
// ObjectSet, and drops what differs by construction (phase objects, the class
// field, remotePhases).
func projectionForDelegation(w *World) map[string]string {
	out := map[string]string{}
	// phase object name -> ObjectSet name
	parent := map[string]string{}
	for _, k := range sortedKeys(w.Mgmt.Objs) {
		if k.Group == PKOGroup && isPhaseKind(k.Kind) {
			for _, c := range Controllers(w.Mgmt.Objs[k], "native") {
				parent[k.Name] = c.Name
			}
		}
	}
	for k, v := range w.projection(true) {
		if strings.Contains(k, "ObjectSetPhase/") {
			continue
		}
		for pn, sn := range parent {
			v = strings.ReplaceAll(v, "ObjectSetPhase/"+pn+"/", "ObjectSet/"+sn+"/")
		}
		v = strings.ReplaceAll(v, "ClusterObjectSet/", "ObjectSet/")
		if i := strings.Index(v, `"remotePhases":[`); i >= 0 {
			if j := strings.Index(v[i:], "]"); j >= 0 {
				v = v[:i] + `"remotePhases":[]` + v[i+j+1:]
			}
		}
		v = strings.ReplaceAll(v, `"remotePhases":null`, `"remotePhases":[]`)
		// whether pause has reached every phase object is reported in the Paused
		// condition; an in-process phase has no counterpart, so it is not compared
		for _, pv := range []string{`"Paused":"Unknown",`, `,"Paused":"Unknown"`, `"Paused":"Unknown"`} {
			v = strings.ReplaceAll(v, pv, "")
		}
		v = stripLatched(v)
		out[k] = v
	}
	return out
}

// deleteOrderBySet is, per ObjectSet, the sequence of phase indices in which
// managed objects were deleted (through the set itself or its phase objects).
func (w *World) deleteOrderBySet() map[string][]int {
	out := map[string][]int{}
	g, _ := w.Scenario.Facts["os"].(*OSGen)
	if g == nil {
		return out
	}
	for _, r := range w.Hist {
		if r.Pass == nil || r.DryRun || r.Verb != "delete" || !r.Succeeded() || r.GVK.Group == PKOGroup {
			continue
		}
		set := r.Pass.Key.Name
		if isPhaseKind(r.Pass.Ctrl) {
			found := ""
			for _, n := range g.Names {
				if strings.HasPrefix(set, n+"-") {
					found = n
				}
			}
			if found == "" {
				continue
			}
			set = found
		}
		k := r.Key()
		for _, cand := range []store.Key{k, {Group: k.Group, Kind: k.Kind, Namespace: nsMain, Name: k.Name}, {Group: k.Group, Kind: k.Kind, Namespace: g.NS, Name: k.Name}} {
			if ph, ok := g.PhaseOf[set][cand.String()]; ok {
				l := out[set]
				if len(l) == 0 || l[len(l)-1] != ph {
					out[set] = append(l, ph)
				}
				break
			}
		}
	}
	return out
}

func c15Scenario(w *World, delegate bool) {
	s := w.Scn
	w.setupCommon(0)
	w.drawFaultMix("err-before", "lost-response", "crash", "compaction", "duplicate")
	w.Cfg.Faults["drift"] = !w.Cfg.FaultFree
	w.Cfg.Ndist = 60 + s.Intn(300, "ndist")
	mask := 1 + s.Intn(7, "delegate-mask")
	if !delegate {
		mask = 0
	}
	w.Scenario = GenOS(w, OSProfile{MaxSets: 3, Lifecycle: true, LateCreate: true, AllLate: true, CompletePrev: true, OldestFirst: true, NoOrphan: true, DelegateMask: mask, NeverReady: s.Bool("never-ready")})
}

func planC15(w *World, spec RunSpec) {
	if spec.Index%2 == 0 {
		// differential: all-local vs delegated (class default), both undisturbed
		w.Cfg.FaultFree = true
		c15Scenario(w, true)
		w.Cfg.UserOpsAtQuiescence = true
		w.Cfg.FaultBudget = 0
		for k := range w.Cfg.Faults {
			delete(w.Cfg.Faults, k)
		}
		prefix := append([]uint32{}, w.Scn.Rec...)
		refCfg := &Config{Property: "C15-local", StopOn: "none", FaultFree: true, Faults: map[string]bool{}, NoFaultWeight: 200, MaxSteps: w.Cfg.MaxSteps, CalmBudget: w.Cfg.CalmBudget, Trace: w.Cfg.Trace}
		ref := NewWorld(refCfg, choice.NewReplay(nil), choice.NewReplay(prefix))
		c15Scenario(ref, false)
		ref.Monitors = nil
		ref.Cfg.UserOpsAtQuiescence = true
		ref.Cfg.FaultBudget = 0
		for k := range ref.Cfg.Faults {
			delete(ref.Cfg.Faults, k)
		}
		defer ref.Shutdown()
		defer func() {
			if w.Cfg.Trace && len(w.Viol) > 0 {
				w.trace = append(w.trace, "---- all-local run of the same scenario ----")
				for _, l := range ref.trace {
					w.trace = append(w.trace, "LOCAL "+l)
				}
			}
		}()
		ref.StartProcesses()
		w.StartProcesses()
		nOps := len(w.Scenario.UserOps)
		for epoch := 0; epoch <= nOps; epoch++ {
			w.epoch = epoch
			if epoch > 0 {
				ref.applyNextUserOp()
				w.applyNextUserOp()
			}
			if !ref.settleWithResync() || !w.settleWithResync() {
				if !w.stopNow {
					w.Stats.Inconclusive = true
				}
				return
			}
			if w.stopNow {
				return
			}
			for _, m := range w.Monitors {
				if m.ID() == "C15" {
					m.(*MonC15).touch()
				}
			}
			if diff := DiffProjection(projectionForDelegation(ref), projectionForDelegation(w)); len(diff) > 0 {
				n := len(diff)
				if n > 3 {
					diff = diff[:3]
				}
				w.Report(Violation{Property: "C15", Rule: "delegated-differs", Sig: "state/" + diffKind(diff[0]), Msg: fmt.Sprintf("epoch %d: delegated run differs from the all-local run of the same scenario in %d places: %v", epoch, n, diff)})
				return
			}
			a, b := ref.deleteOrderBySet(), w.deleteOrderBySet()
			if !reflect.DeepEqual(a, b) {
				var names []string
				for k := range a {
					names = append(names, k)
				}
				for k := range b {
					if _, ok := a[k]; !ok {
						names = append(names, k)
					}
				}
				sort.Strings(names)
				for _, n := range names {
					if !reflect.DeepEqual(a[n], b[n]) {
						w.Report(Violation{Property: "C15", Rule: "delegated-differs", Sig: "delete-order", Msg: fmt.Sprintf("epoch %d: teardown order of %s (phase indices): all-local %v, delegated %v", epoch, n, a[n], b[n])})
						return
					}
				}
			}
		}
		return
	}
	// monitored: delegated (default and hosted-cluster) scenarios under faults with the C01-C06 monitors
	s := w.Scn
	w.setupCommon(3)
	defer w.withForceAdoption(12)()
	w.drawFaultMix("err-before", "lost-response", "crash", "compaction", "duplicate")
	w.Cfg.Faults["drift"] = !w.Cfg.FaultFree
	w.Cfg.Ndist = 80 + s.Intn(400, "ndist")
	w.Scenario = GenOS(w, OSProfile{MaxSets: 3, Delegation: true, DelegateMask: 1 + s.Intn(7, "delegate-mask"), Lifecycle: true, LateCreate: true, Preexisting: 3, Intruder: "boundary", NoForge: true, PhaseObjectDrift: s.Bool("phase-object-drift"), NeverReady: s.Bool("never-ready")})
	w.Cfg.StopOn = "C15"
	w.StartProcesses()
	w.Disturb(w.Cfg.Ndist)
	if w.Settle(w.Cfg.CalmBudget) && !w.stopNow {
		if _, ok := w.probePasses(w.Cfg.CalmBudget); ok {
			w.resynced = true
		}
	}
	w.finish()
}

// stripLatched removes the Succeeded condition from a projected object: it records that the
// revision was Available at some moment in the past, which in a differential run depends on how
// workload readiness happened to interleave with the (differently long) rollouts of the two
// worlds. End-state equality is about what holds now.
func stripLatched(v string) string {
	for _, st := range []string{"True", "False"} {
		for _, pv := range []string{`"Succeeded":"` + st + `",`, `,"Succeeded":"` + st + `"`, `"Succeeded":"` + st + `"`} {
			v = strings.ReplaceAll(v, pv, "")
		}
	}
	return v
}
