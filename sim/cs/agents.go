package cs

import (
	"fmt"

	"package-operator.run/internal/packages/verifsim/store"
)

// ---- workload controller ---------------------------------------------------------

// WorkloadAgent plays the controllers that realise Deployments/Widgets: it
// writes their status. Policy per object decides what the status converges to.
type WorkloadAgent struct {
	Cluster string
	// Policy: "ready" (default), "never", "stale" (ready but observedGeneration lags)
	Policy map[store.Key]string
	Budget int // remaining perturbations
	// Convergent restricts perturbations to ones the agent itself reverts and
	// that cannot latch anything (never makes a not-ready workload look ready).
	Convergent bool
}

func (a *WorkloadAgent) Name() string { return "workload" }

func isWorkload(k store.Key) bool {
	return k.Kind == "Deployment" || k.Kind == "Widget" || k.Kind == "ClusterWidget"
}

func workloadStatus(kind string, gen int64, mode string) store.Obj {
	og := gen
	if mode == "stale" {
		og = gen - 1
	}
	ready := "True"
	phase := "Running"
	upd := int64(1)
	if mode == "unready" || mode == "never" {
		ready, phase, upd = "False", "Pending", 0
	}
	if kind == "Deployment" {
		return store.Obj{
			"observedGeneration": og, "replicas": int64(1), "updatedReplicas": upd,
			"conditions": []any{map[string]any{"type": "Available", "status": ready, "reason": "Sim", "message": "sim"}},
		}
	}
	return store.Obj{
		"phase":      phase,
		"conditions": []any{map[string]any{"type": "Ready", "status": ready, "observedGeneration": og, "reason": "Sim", "message": "sim"}},
	}
}

func (a *WorkloadAgent) target(k store.Key) string {
	if p := a.Policy[k]; p != "" {
		return p
	}
	return "ready"
}

func (a *WorkloadAgent) Ops(w *World, calm bool) []AgentOp {
	cl := w.Cluster(a.Cluster)
	if cl == nil {
		return nil
	}
	var ops []AgentOp
	for _, k := range sortedKeys(cl.Objs) {
		if !isWorkload(k) {
			continue
		}
		o := cl.Objs[k]
		if store.Deleting(o) {
			continue
		}
		key := k
		gen := store.Int(o, "metadata", "generation")
		want := store.Normalize(workloadStatus(k.Kind, gen, a.target(k)))
		cur, _ := o["status"].(map[string]any)
		if fmt.Sprint(cur) != fmt.Sprint(map[string]any(want)) {
			ops = append(ops, AgentOp{Label: "converge " + key.String(), Weight: 4, Do: func(w *World) {
				_, _ = w.TP("workload", cl).Mutate(key, func(o store.Obj) { o["status"] = want })
			}})
		}
		if !calm && w.Cfg.Faults["drift"] && a.Budget > 0 {
			ops = append(ops, AgentOp{Label: "perturb " + key.String(), Weight: 1, Do: func(w *World) {
				a.Budget--
				mode := []string{"unready", "stale", "ready"}[w.Sch.Intn(3, "workload-mode")]
				if a.Convergent && a.target(key) != "ready" {
					mode = "unready" // never let a not-ready workload look (partly) ready
				}
				st := store.Normalize(workloadStatus(key.Kind, gen, mode))
				w.Stats.Probe("workload-" + mode)
				_, _ = w.TP("workload", cl).Mutate(key, func(o store.Obj) { o["status"] = st })
			}})
		}
	}
	return ops
}

// ---- garbage collector ------------------------------------------------------------

// GCAgent models the Kubernetes garbage collector on one cluster (native
// ownerReferences only): dependents all of whose owners are gone are deleted;
// the orphan and foregroundDeletion finalizers are processed.
type GCAgent struct {
	Cluster string
}

func (a *GCAgent) Name() string { return "gc" }

func ownerExists(cl *store.Cluster, dep store.Obj, ref map[string]any) bool {
	av, _ := ref["apiVersion"].(string)
	kind, _ := ref["kind"].(string)
	name, _ := ref["name"].(string)
	uid, _ := ref["uid"].(string)
	g := groupOf(av)
	for _, ns := range []string{store.Str(dep, "metadata", "namespace"), ""} {
		if o, ok := cl.Objs[store.Key{Group: g, Kind: kind, Namespace: ns, Name: name}]; ok {
			if store.Str(o, "metadata", "uid") == uid {
				return true
			}
		}
	}
	return false
}

func (a *GCAgent) Ops(w *World, calm bool) []AgentOp {
	cl := w.Cluster(a.Cluster)
	if cl == nil {
		return nil
	}
	var ops []AgentOp
	for _, k := range sortedKeys(cl.Objs) {
		o := cl.Objs[k]
		key := k
		refs, _ := store.Get(o, "metadata", "ownerReferences").([]any)
		if len(refs) > 0 && !store.Deleting(o) {
			alive := false
			for _, rx := range refs {
				if rm, ok := rx.(map[string]any); ok && ownerExists(cl, o, rm) {
					alive = true
				}
			}
			if !alive {
				ops = append(ops, AgentOp{Label: "collect " + key.String(), Weight: 4, Do: func(w *World) {
					w.Stats.Probe("gc-collect")
					_ = w.TP("gc", cl).Delete(key, "Background")
				}})
			}
		}
		if store.Deleting(o) && store.HasFinalizer(o, "orphan") {
			uid := store.Str(o, "metadata", "uid")
			// strip owner references pointing at o from one dependent, or drop the finalizer
			var dep *store.Key
			for _, dk := range sortedKeys(cl.Objs) {
				for _, rx := range func() []any { l, _ := store.Get(cl.Objs[dk], "metadata", "ownerReferences").([]any); return l }() {
					if rm, ok := rx.(map[string]any); ok && rm["uid"] == uid {
						d := dk
						dep = &d
					}
				}
				if dep != nil {
					break
				}
			}
			if dep != nil {
				d := *dep
				ops = append(ops, AgentOp{Label: "orphan dependent " + d.String(), Weight: 4, Do: func(w *World) {
					w.Stats.Probe("gc-orphan")
					_, _ = w.TP("gc", cl).Mutate(d, func(o store.Obj) {
						l, _ := store.Get(o, "metadata", "ownerReferences").([]any)
						var kept []any
						for _, rx := range l {
							if rm, ok := rx.(map[string]any); ok && rm["uid"] == uid {
								continue
							}
							kept = append(kept, rx)
						}
						if len(kept) == 0 {
							delete(store.Meta(o), "ownerReferences")
						} else {
							store.Meta(o)["ownerReferences"] = kept
						}
					})
				}})
			} else {
				ops = append(ops, AgentOp{Label: "orphan done " + key.String(), Weight: 4, Do: func(w *World) {
					_, _ = w.TP("gc", cl).Mutate(key, func(o store.Obj) { removeFinalizer(o, "orphan") })
				}})
			}
		}
		if store.Deleting(o) && store.HasFinalizer(o, "foregroundDeletion") {
			uid := store.Str(o, "metadata", "uid")
			blocked := false
			for _, dk := range sortedKeys(cl.Objs) {
				l, _ := store.Get(cl.Objs[dk], "metadata", "ownerReferences").([]any)
				for _, rx := range l {
					if rm, ok := rx.(map[string]any); ok && rm["uid"] == uid {
						blocked = true
					}
				}
			}
			if !blocked {
				ops = append(ops, AgentOp{Label: "foreground done " + key.String(), Weight: 4, Do: func(w *World) {
					_, _ = w.TP("gc", cl).Mutate(key, func(o store.Obj) { removeFinalizer(o, "foregroundDeletion") })
				}})
			}
		}
	}
	return ops
}

func removeFinalizer(o store.Obj, f string) {
	var kept []any
	for _, x := range store.Finalizers(o) {
		if x != f {
			kept = append(kept, x)
		}
	}
	if len(kept) == 0 {
		delete(store.Meta(o), "finalizers")
	} else {
		store.Meta(o)["finalizers"] = kept
	}
}

func addFinalizer(o store.Obj, f string) {
	if store.HasFinalizer(o, f) {
		return
	}
	l, _ := store.Get(o, "metadata", "finalizers").([]any)
	store.Meta(o)["finalizers"] = append(l, f)
}

// ---- slice killer ---------------------------------------------------------------------

// SliceKiller is a third party that deletes ObjectSlices (kubectl delete objectslice ...).
type SliceKiller struct{ Budget int }

func (a *SliceKiller) Name() string { return "slice-killer" }

func (a *SliceKiller) Ops(w *World, calm bool) []AgentOp {
	if calm || a.Budget <= 0 || !w.Cfg.Faults["drift"] {
		return nil
	}
	return []AgentOp{{Label: "delete slice", Weight: 1, Do: func(w *World) {
		a.Budget--
		var cands []store.Key
		for _, k := range sortedKeys(w.Mgmt.Objs) {
			if k.Group == PKOGroup && isSliceKind(k.Kind) {
				cands = append(cands, k)
			}
		}
		if len(cands) == 0 {
			return
		}
		k := cands[w.Sch.Intn(len(cands), "slice-killer-target")]
		w.Stats.Probe("slice-killer-delete")
		w.Tracef("THIRD PARTY deletes slice %s", k)
		_ = w.TP("slice-killer", w.Mgmt).Delete(k, "Background")
	}}}
}

// ---- slice squatter ---------------------------------------------------------------------

// SliceSquatter is a third party that creates an ObjectSlice under exactly the name PKO is
// about to create (it sees the parked create request): PKO's create is answered AlreadyExists
// by a slice that is not its own, which is the name-collision path (counter bumped, next name).
type SliceSquatter struct{ Budget int }

func (a *SliceSquatter) Name() string { return "slice-squatter" }

func (a *SliceSquatter) Ops(w *World, calm bool) []AgentOp {
	if calm || a.Budget <= 0 {
		return nil
	}
	var ops []AgentOp
	for _, act := range w.liveActors() {
		r := act.pending
		if act.state != stParked || r == nil || r.Verb != "create" || r.GVK.Group != PKOGroup || !isSliceKind(r.GVK.Kind) || r.Name == "" {
			continue
		}
		key := r.Key()
		if _, exists := w.Mgmt.Objs[key]; exists {
			continue
		}
		ops = append(ops, AgentOp{Label: "squat " + key.String(), Weight: 3, Do: func(w *World) {
			a.Budget--
			w.Stats.Probe("slice-squatter-create")
			w.Tracef("THIRD PARTY takes the slice name %s", key)
			o := store.Obj{"apiVersion": PKOGroup + "/" + PKOVer, "kind": key.Kind, "metadata": map[string]any{"name": key.Name}, "objects": []any{}}
			if key.Namespace != "" {
				store.Meta(o)["namespace"] = key.Namespace
			}
			_, _ = w.TP("slice-squatter", w.Mgmt).Create(o)
		}})
	}
	return ops
}
