package cs

import (
	"fmt"
	"sort"

	"package-operator.run/internal/packages/verifsim/store"
)

// MonC08: rollouts never archive or delete what is still serving.
type MonC08 struct {
	BaseMon
	// incoming revisions as of the archive decision: archived set uid -> (revision name -> listed keys)
	incoming map[string]map[string]map[string]bool
}

func (m *MonC08) ID() string { return "C08" }

// listedSets returns the ObjectSets the pass last listed before seq, sorted by revision.
func listedSets(p *Pass, before uint64) []store.Obj {
	var items []store.Obj
	for _, q := range p.Reqs {
		if q.Seq >= before {
			break
		}
		if q.Verb == "list" && isObjectSetKind(q.GVK.Kind) && q.Err == nil {
			items = q.Items
		}
	}
	out := append([]store.Obj{}, items...)
	sort.SliceStable(out, func(i, j int) bool {
		return store.Int(out[i], "status", "revision") < store.Int(out[j], "status", "revision")
	})
	return out
}

func specKeys(w *World, set store.Obj) map[string]bool {
	out := map[string]bool{}
	for _, so := range SpecObjects(set, w.sliceLookupWithHistory(set)) {
		out[so.Key.String()] = true
	}
	return out
}

func (m *MonC08) OnReq(w *World, r *Req) {
	p := r.Pass
	if p == nil || r.DryRun || !r.IsWrite() {
		return
	}
	// shared-object-deleted: teardown of an archived revision deletes an object the newest revision lists
	if (isObjectSetKind(p.Ctrl) || isPhaseKind(p.Ctrl)) && r.Verb == "delete" && r.GVK.Group != PKOGroup && r.Succeeded() {
		owner := ownerOfPass(p)
		set := owner
		if owner != nil && isPhaseKind(p.Ctrl) {
			// find the ObjectSet owning this phase object
			for _, c := range Controllers(owner, "native") {
				if o, ok := w.Mgmt.Objs[store.Key{Group: PKOGroup, Kind: c.Kind, Namespace: store.Str(owner, "metadata", "namespace"), Name: c.Name}]; ok {
					set = o
				}
			}
		}
		if set == nil || !isObjectSetKind(store.Str(set, "kind")) || store.Str(set, "spec", "lifecycleState") != "Archived" || store.Deleting(set) {
			return
		}
		for _, c := range Controllers(set, "native") {
			if !isODKind(c.Kind) {
				continue
			}
			od, ok := w.Mgmt.Objs[store.Key{Group: PKOGroup, Kind: c.Kind, Namespace: store.Str(set, "metadata", "namespace"), Name: c.Name}]
			if !ok {
				continue
			}
			// the incoming revision(s) of this handover: a revision may be archived because a
			// newer one is Available (then those are what takes over), or because it shares
			// nothing with the next newer active revision (then that one is)
			var newer, available []store.Obj
			xr := store.Int(set, "status", "revision")
			for _, s := range setsOfDeployment(w.Mgmt.Objs, od) {
				sr := store.Int(s, "status", "revision")
				if sr <= xr || store.Str(s, "spec", "lifecycleState") == "Archived" || store.Deleting(s) {
					continue // older, or a tombstone that takes nothing over
				}
				if odPaused, _ := store.Get(od, "spec", "paused").(bool); !odPaused && store.Str(s, "spec", "lifecycleState") == "Paused" {
					// an intermediate revision that the (unpaused) deployment has paused on its way to the
					// archive adopts nothing, whatever its probes say about objects others keep alive
					w.Stats.Probe("c08-paused-intermediate-not-incoming")
					continue
				}
				newer = append(newer, s)
				if CondTrue(s, "Available") {
					available = append(available, s)
				}
			}
			if len(newer) == 0 {
				continue
			}
			incoming := available
			if len(incoming) == 0 {
				next := newer[0]
				for _, s := range newer {
					if store.Int(s, "status", "revision") < store.Int(next, "status", "revision") {
						next = s
					}
				}
				incoming = []store.Obj{next}
			}
			m.touch()
			k := r.Key()
			if rec, ok := m.incoming[store.Str(set, "metadata", "uid")]; ok {
				// judged against the revisions that were incoming when the archive decision was taken
				var kept []store.Obj
				for _, n := range incoming {
					if _, in := rec[store.Str(n, "metadata", "name")]; in {
						kept = append(kept, n)
					}
				}
				incoming = kept
			}
			for _, newest := range incoming {
				for _, so := range SpecObjects(newest, w.sliceLookupWithHistory(newest)) {
					soCluster := "mgmt"
					if so.Class == "hosted-cluster" {
						soCluster = "hosted"
					}
					if soCluster == r.Cluster && w.normKey(r.Cluster, so.Key) == k {
						cause := w.Taint[r.Cluster+"|"+k.String()]
						if cause == "" {
							cause = w.Taint["run"]
						}
						if cause == "" {
							cause = "unreported-control"
							for _, c := range controllerOfList(set) {
								if c.matches(k) {
									cause = "reported-control"
								}
							}
							if cause == "unreported-control" {
								// the known finding is about passes that never get to the object (they stop at an
								// earlier failing phase); a pass that saw itself controlling the object and still
								// left it out of status.controllerOf is something else
								var last *Pass
								for _, q := range w.Passes {
									if q.Ctrl != store.Str(set, "kind") || q.Key.Name != store.Str(set, "metadata", "name") || q.Key.Namespace != store.Str(set, "metadata", "namespace") {
										continue
									}
									for _, rq := range q.Reqs {
										if rq.Verb == "update-status" && rq.Succeeded() && rq.Seq < r.Seq {
											last = q
										}
									}
								}
								if last != nil {
									for _, o := range last.Observations(r.Cluster, k, 0) {
										if o != nil && IsControlledBy(o, set, "native") {
											cause = "unreported-control-despite-observation"
										}
									}
								}
							}
						}
						w.Report(Violation{Property: "C08", Rule: "shared-object-deleted", Sig: shortSite(r.Site) + "/" + cause + "/" + causeTag(newest), Seq: r.Seq,
							Msg: fmt.Sprintf("teardown of archived %s deleted %s which the incoming revision %s also lists", store.Str(set, "metadata", "name"), k, store.Str(newest, "metadata", "name"))})
						return
					}
				}
			}
		}
		return
	}
	if !isODKind(p.Ctrl) || !isObjectSetKind(r.GVK.Kind) || r.GVK.Group != PKOGroup {
		return
	}
	od := ownerOfPass(p)
	if od == nil {
		return
	}
	sets := listedSets(p, r.Seq)
	find := func(name string) (store.Obj, int) {
		for i, s := range sets {
			if store.Str(s, "metadata", "name") == name {
				return s, i
			}
		}
		return nil, -1
	}
	switch r.Verb {
	case "update":
		if store.Str(r.Body, "spec", "lifecycleState") != "Archived" {
			return
		}
		x, xi := find(r.Name)
		if x == nil || store.Str(x, "spec", "lifecycleState") == "Archived" {
			return
		}
		m.touch()
		if !CondTrue(x, "Paused") {
			w.Report(Violation{Property: "C08", Rule: "archived-unpaused", Sig: shortSite(r.Site), Seq: r.Seq,
				Msg: fmt.Sprintf("pass %d archived %s which had not confirmed Paused=True", p.ID, r.Name)})
			return
		}
		if xi == len(sets)-1 {
			w.Report(Violation{Property: "C08", Rule: "archived-newest", Sig: shortSite(r.Site), Seq: r.Seq,
				Msg: fmt.Sprintf("pass %d archived %s, the newest revision", p.ID, r.Name)})
			return
		}
		if m.incoming == nil {
			m.incoming = map[string]map[string]map[string]bool{}
		}
		rec := map[string]map[string]bool{}
		for _, n := range sets[xi+1:] {
			if CondTrue(n, "Available") {
				rec[store.Str(n, "metadata", "name")] = specKeys(w, n)
			}
		}
		if len(rec) == 0 {
			rec[store.Str(sets[xi+1], "metadata", "name")] = specKeys(w, sets[xi+1])
		}
		m.incoming[store.Str(x, "metadata", "uid")] = rec
		for _, n := range sets[xi+1:] {
			if CondTrue(n, "Available") {
				w.Stats.Probe("c08-archive/newer-available")
				return
			}
		}
		next := sets[xi+1]
		co := controllerOfList(x)
		_, reported := store.Get(x, "status", "controllerOf").([]any)
		shared := ""
		nk := specKeys(w, next)
		for _, c := range co {
			for k := range nk {
				_ = k
			}
			key := store.Key{Group: c.Group, Kind: c.Kind, Namespace: c.Namespace, Name: c.Name}
			if nk[key.String()] {
				shared = key.String()
			}
		}
		if CondTrue(x, "Available") || !reported || shared != "" {
			w.Report(Violation{Property: "C08", Rule: "archive-unjustified", Sig: shortSite(r.Site) + "/" + causeTag(next), Seq: r.Seq,
				Msg: fmt.Sprintf("pass %d archived %s (Available=%v, controllerOf reported=%v, shares %q with next newer revision %s) while no newer revision is Available",
					p.ID, r.Name, CondTrue(x, "Available"), reported, shared, store.Str(next, "metadata", "name"))})
			return
		}
		w.Stats.Probe("c08-archive/unavailable-disjoint")
	case "delete":
		x, xi := find(r.Name)
		if x == nil {
			return
		}
		m.touch()
		limit := int64(10)
		if v, ok := store.Get(od, "spec", "revisionHistoryLimit").(int64); ok {
			limit = v
		}
		cur := len(sets) - 1
		if xi == cur {
			w.Report(Violation{Property: "C08", Rule: "pruned-wrong", Sig: "current/" + shortSite(r.Site), Seq: r.Seq,
				Msg: fmt.Sprintf("pass %d deleted %s, the current revision", p.ID, r.Name)})
			return
		}
		numToDelete := int64(cur) - limit
		if int64(xi) >= numToDelete {
			w.Report(Violation{Property: "C08", Rule: "pruned-wrong", Sig: "not-oldest/" + shortSite(r.Site), Seq: r.Seq,
				Msg: fmt.Sprintf("pass %d deleted %s (position %d of %d previous revisions by age) although only the %d oldest exceed revisionHistoryLimit=%d", p.ID, r.Name, xi, cur, numToDelete, limit)})
		}
	}
}
