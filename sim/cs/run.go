package cs

import (
	"encoding/json"
	"fmt"
	"hash/fnv"
	"os"
	"sort"
	"strings"
	"testing"
	"testing/synctest"

	"package-operator.run/internal/packages/verifsim/choice"
	"package-operator.run/internal/packages/verifsim/store"
)

// RunSpec describes one simulated execution.
type RunSpec struct {
	Property  string   `json:"property"`
	Seed      uint64   `json:"seed"`
	Index     int      `json:"index"`
	Sch       []uint32 `json:"sch,omitempty"` // replay: schedule stream
	Scn       []uint32 `json:"scn,omitempty"` // replay: scenario stream
	Replay    bool     `json:"replay"`
	Trace     bool     `json:"-"`
	FaultFree bool     `json:"fault_free"`
	Mode      string   `json:"mode,omitempty"` // plan-specific variant ("sweep-base", "sweep")
	SweepAt   int      `json:"sweep_at,omitempty"`
	SweepKind string   `json:"sweep_kind,omitempty"`
}

// RunResult is what one execution produced.
type RunResult struct {
	Spec       RunSpec        `json:"spec"`
	Viol       []Violation    `json:"violations,omitempty"`
	Incidental []Violation    `json:"incidental,omitempty"`
	Sch        []uint32       `json:"sch"`
	Scn        []uint32       `json:"scn"`
	Hash       uint64         `json:"hash"`
	ILSig      uint64         `json:"il_sig"`
	Exercised  bool           `json:"exercised"`
	Steps      int            `json:"steps"`
	Requests   int            `json:"requests"`
	Passes     int            `json:"passes"`
	SimSeconds float64        `json:"sim_seconds"`
	Faults     map[string]int `json:"faults,omitempty"`
	Probes     map[string]int `json:"probes,omitempty"`
	States     []uint64       `json:"states,omitempty"`
	Capped     bool           `json:"capped,omitempty"`
	Inconcl    bool           `json:"inconclusive,omitempty"`
	Desc       []string       `json:"desc,omitempty"`
	Trace      []string       `json:"trace,omitempty"`
	Machinery  string         `json:"machinery,omitempty"`
	Extra      map[string]any `json:"extra,omitempty"`
}

// Plan drives one run of a property: draws knobs, builds the scenario,
// registers monitors and executes the phases.
type Plan func(w *World, spec RunSpec)

var Plans = map[string]Plan{}

func streams(spec RunSpec) (*choice.Seq, *choice.Seq) {
	if spec.Replay {
		return choice.NewReplay(spec.Sch), choice.NewReplay(spec.Scn)
	}
	base := fmt.Sprintf("%s/%d", spec.Property, spec.Index)
	return choice.NewGen(spec.Seed, base+"/sch"), choice.NewGen(spec.Seed, base+"/scn")
}

// RunOne executes spec inside a synctest bubble.
func RunOne(t *testing.T, spec RunSpec) (res RunResult) {
	res.Spec = spec
	plan := Plans[spec.Property]
	if plan == nil {
		res.Machinery = "no plan for property " + spec.Property
		return res
	}
	var w *World
	func() {
		defer func() {
			if r := recover(); r != nil {
				// the end-of-bubble deadlock panic (or a harness bug)
				res.Machinery = fmt.Sprintf("panic in bubble: %v", r)
			}
		}()
		synctest.Test(t, func(t *testing.T) {
			sch, scn := streams(spec)
			cfg := &Config{Property: spec.Property, StopOn: spec.Property, Trace: spec.Trace, FaultFree: spec.FaultFree,
				Faults: map[string]bool{}, NoFaultWeight: 200, MaxSteps: 6000, CalmBudget: 4000}
			w = NewWorld(cfg, sch, scn)
			func() {
				defer func() {
					if r := recover(); r != nil {
						w.failed = fmt.Errorf("harness panic: %v", r)
						if os.Getenv("VERIF_DEBUG") != "" {
							panic(r)
						}
					}
				}()
				plan(w, spec)
			}()
			w.Stats.SimSeconds = w.SimElapsed()
			w.Shutdown()
		})
	}()
	if w == nil {
		return res
	}
	if w.failed != nil && res.Machinery == "" {
		res.Machinery = w.failed.Error()
	}
	for _, v := range w.Viol {
		if v.Property == spec.Property {
			res.Viol = append(res.Viol, v)
		} else {
			res.Incidental = append(res.Incidental, v)
		}
	}
	res.Sch, res.Scn = w.Sch.Rec, w.Scn.Rec
	res.Hash = w.logHash()
	res.ILSig = w.interleavingSig()
	for _, m := range w.Monitors {
		if m.ID() == spec.Property && m.Exercised() {
			res.Exercised = true
		}
	}
	res.Steps, res.Requests, res.Passes = w.Stats.Steps, w.Stats.Requests, w.Stats.Passes
	res.SimSeconds = w.Stats.SimSeconds
	res.Faults, res.Probes = w.Stats.Faults, w.Stats.Probes
	for h := range w.Stats.StateHashes {
		res.States = append(res.States, h)
	}
	sort.Slice(res.States, func(i, j int) bool { return res.States[i] < res.States[j] })
	res.Capped, res.Inconcl = w.Stats.Capped, w.Stats.Inconclusive
	if w.Scenario != nil {
		res.Desc = w.Scenario.Desc
	}
	res.Trace = w.trace
	if os.Getenv("VERIF_DUMPLOG") != "" {
		for _, cl := range w.Clusters() {
			for _, ev := range cl.Log {
				b, _ := json.Marshal(stripTimes(map[string]any(ev.After)))
				res.Trace = append(res.Trace, fmt.Sprintf("EVENTLOG %d %s %s %s", ev.Seq, ev.Type, ev.Key, b))
			}
		}
	}
	res.Extra = w.extra
	return res
}

func stripTimes(v any) any {
	switch x := v.(type) {
	case map[string]any:
		out := map[string]any{}
		for k, e := range x {
			if k == "creationTimestamp" || k == "deletionTimestamp" || k == "lastTransitionTime" {
				continue
			}
			out[k] = stripTimes(e)
		}
		return out
	case []any:
		out := make([]any, len(x))
		for i, e := range x {
			out[i] = stripTimes(e)
		}
		return out
	}
	return v
}

// logHash hashes the request history and every committed store event (timestamps excluded).
func (w *World) logHash() uint64 {
	h := fnv.New64a()
	for _, r := range w.Hist {
		fmt.Fprintf(h, "%d|%s|%s|%s|%s|%s|%s|%v|%s\n", r.Seq, r.Actor, r.Verb, r.Cluster, r.Key(), r.ErrReason(), r.Fault, r.Changed, r.Site)
	}
	for _, cl := range w.Clusters() {
		for _, ev := range cl.Log {
			b, _ := json.Marshal(stripTimes(map[string]any(ev.After)))
			fmt.Fprintf(h, "%d|%s|%s|%s\n", ev.Seq, ev.Type, ev.Key, b)
		}
	}
	return h.Sum64()
}

func actorClass(a string) string {
	if i := strings.Index(a, "#"); i >= 0 {
		return a[:i]
	}
	return a
}

// interleavingSig hashes the sequence of (actor class, verb, kind, outcome).
func (w *World) interleavingSig() uint64 {
	h := fnv.New64a()
	for _, r := range w.Hist {
		fmt.Fprintf(h, "%s|%s|%s|%s|%s\n", actorClass(r.Actor), r.Verb, r.GVK.Kind, r.ErrReason(), r.Fault)
	}
	return h.Sum64()
}

// noteState records a hash of the abstract durable state (projection-like).
func (w *World) noteState() {
	h := fnv.New64a()
	for _, cl := range w.Clusters() {
		for _, k := range sortedKeys(cl.Objs) {
			o := cl.Objs[k]
			ctrl := ""
			for _, c := range Controllers(o, "native") {
				ctrl += c.Kind + "/" + c.Name + ","
			}
			fmt.Fprintf(h, "%s|%s|%s|%v|%s|", cl.Name, k, ctrl, store.Deleting(o), store.Annotations(o)[annRevision])
			for _, c := range Conditions(o) {
				fmt.Fprintf(h, "%s=%s,", c.Type, c.Status)
			}
			fmt.Fprintf(h, "%s\n", store.Str(o, "spec", "lifecycleState"))
		}
	}
	w.Stats.StateHashes[h.Sum64()] = struct{}{}
}

// drawFaultMix enables a random subset of the given fault kinds (swarm).
func (w *World) drawFaultMix(kinds ...string) {
	// always consume the same choices so that a fault-free reference run of the
	// same scenario stream generates the same scenario
	for _, k := range kinds {
		if w.Scn.Chance(1, 2, "fault-kind-"+k) && !w.Cfg.FaultFree {
			w.Cfg.Faults[k] = true
		}
	}
	w.Cfg.FaultBudget = w.Scn.Intn(7, "fault-budget")
	w.Cfg.HotVerb = []string{"", "", "", "update-status", "patch", "update", "create", "delete"}[w.Scn.Intn(8, "hot-verb")]
	if w.Cfg.FaultFree {
		w.Cfg.FaultBudget = 0
	}
}

// finish runs the calm phase and the end-of-run hooks.
func (w *World) finish() bool {
	ok := w.Settle(w.Cfg.CalmBudget)
	if w.stopNow {
		return ok
	}
	if !ok {
		w.Stats.Inconclusive = true
		return false
	}
	for _, m := range w.Monitors {
		m.OnQuiescent(w, w.epoch)
	}
	for _, m := range w.Monitors {
		m.OnEnd(w)
	}
	return true
}
