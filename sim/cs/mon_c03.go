package cs

import (
	"fmt"
	"strings"

	"package-operator.run/internal/packages/verifsim/store"
)

// MonC03: phases roll out in order, each gated on the probes of the previous.
type MonC03 struct{ BaseMon }

func (m *MonC03) ID() string { return "C03" }

// passSliceLookup resolves ObjectSlices as the pass observed them.
func passSliceLookup(w *World, p *Pass, owner store.Obj) func(string) store.Obj {
	kind := "ObjectSlice"
	if isClusterScopedOwner(store.Str(owner, "kind")) {
		kind = "ClusterObjectSlice"
	}
	ns := store.Str(owner, "metadata", "namespace")
	return func(name string) store.Obj {
		o, _ := p.LastSeen("mgmt", store.Key{Group: PKOGroup, Kind: kind, Namespace: ns, Name: name}, 0)
		return o
	}
}

func phaseObjectKey(owner store.Obj, phaseName string) store.Key {
	kind := "ObjectSetPhase"
	if isClusterScopedOwner(store.Str(owner, "kind")) {
		kind = "ClusterObjectSetPhase"
	}
	return store.Key{Group: PKOGroup, Kind: kind, Namespace: store.Str(owner, "metadata", "namespace"),
		Name: store.Str(owner, "metadata", "name") + "-" + phaseName}
}

type phaseInfo struct {
	Name  string
	Class string
	Objs  []SpecObject
	// MissingSlice names a referenced ObjectSlice the pass did not get to see (not read, or NotFound):
	// the phase's objects are then not known and the phase cannot be judged as passed.
	MissingSlice string
}

func phasesInfo(owner store.Obj, lookup func(string) store.Obj) []phaseInfo {
	var out []phaseInfo
	for _, px := range PhasesOf(owner) {
		p, _ := px.(map[string]any)
		n, _ := p["name"].(string)
		c, _ := p["class"].(string)
		pi := phaseInfo{Name: n, Class: c}
		if sl, _ := p["slices"].([]any); lookup != nil {
			for _, sx := range sl {
				if name, _ := sx.(string); name != "" && lookup(name) == nil {
					pi.MissingSlice = name
				}
			}
		}
		out = append(out, pi)
	}
	for _, so := range SpecObjects(owner, lookup) {
		out[so.Phase].Objs = append(out[so.Phase].Objs, so)
	}
	return out
}

// phaseObserved evaluates the gate of phase ph on what the pass observed before
// seq. An object may be observed several times in a pass (cache read, response
// of the pass's own patch, a later read for the Paused condition); the gate
// decision may legitimately rest on any of them, so the result is two-sided:
// everPassed: every object has some observation that is present and passes;
// everFailed: some object has an observation that is absent or failing, or was
// never observed.
func phaseObserved(w *World, p *Pass, owner store.Obj, ph phaseInfo, probes []any, before uint64) (everPassed, everFailed bool, why string) {
	if ph.MissingSlice != "" && ph.Class == "" {
		return false, true, "referenced ObjectSlice " + ph.MissingSlice + " was not loaded"
	}
	if ph.Class != "" {
		obs := p.Observations("mgmt", phaseObjectKey(owner, ph.Name), before)
		if len(obs) == 0 {
			return false, true, "phase object not observed"
		}
		if dec := lastWriteResponse(p, "mgmt", phaseObjectKey(owner, ph.Name), before); dec != nil {
			// the pass wrote the phase object itself (create, pause toggle): what it knows of the
			// phase is the response of that write - a new generation nobody has reported on yet
			obs = []store.Obj{dec}
		}
		for _, po := range obs {
			okp := false
			if po != nil {
				c := FindCond(po, "Available")
				okp = c != nil && c.Status == "True" && c.ObservedGeneration == store.Int(po, "metadata", "generation")
			}
			if okp {
				everPassed = true
			} else {
				everFailed = true
				why = "phase object not Available for its generation"
			}
		}
		return
	}
	tc := targetCluster(p)
	everPassed = true
	for _, so := range ph.Objs {
		k := w.normKey(tc, so.Key)
		obs := p.Observations(tc, k, before)
		if len(obs) == 0 {
			everPassed, everFailed = false, true
			why = "object " + k.String() + " not observed"
			continue
		}
		onePass := false
		if dec := lastApplyResponse(p, tc, k, before); dec != nil {
			// the pass applied the object itself: the gate decision rests on the response
			// of that apply (generation, status as stored), not on an earlier cache read
			obs = []store.Obj{dec}
		}
		for _, o := range obs {
			if o != nil && RefProbe(probes, o) {
				onePass = true
			} else {
				everFailed = true
				if o == nil {
					why = "object " + k.String() + " observed absent"
				} else {
					why = "object " + k.String() + " fails probes"
				}
			}
		}
		if !onePass {
			everPassed = false
		}
	}
	return
}

// lastApplyResponse returns the body returned by the pass's last successful
// non-dry-run server-side apply on key before seq, or nil.
func lastApplyResponse(p *Pass, cluster string, key store.Key, before uint64) store.Obj {
	var out store.Obj
	for _, r := range p.Reqs {
		if before != 0 && r.Seq >= before {
			break
		}
		if r.Cluster == cluster && r.Verb == "patch" && r.Patch == "apply" && !r.DryRun && r.Key() == key && r.Err == nil && r.Returned != nil {
			out = r.Returned
		}
	}
	return out
}

// lastWriteResponse is lastApplyResponse for any successful non-dry-run create, update or patch.
func lastWriteResponse(p *Pass, cluster string, key store.Key, before uint64) store.Obj {
	var out store.Obj
	for _, r := range p.Reqs {
		if before != 0 && r.Seq >= before {
			break
		}
		if r.Cluster == cluster && (r.Verb == "patch" || r.Verb == "update" || r.Verb == "create") && !r.DryRun && r.Key() == key && r.Err == nil && r.Returned != nil {
			out = r.Returned
		}
	}
	return out
}

func isTeardownOwner(o store.Obj) bool {
	return store.Deleting(o) || store.Str(o, "spec", "lifecycleState") == "Archived"
}

func (m *MonC03) OnPassEnd(w *World, p *Pass) {
	if !isObjectSetKind(p.Ctrl) {
		return
	}
	owner := ownerOfPass(p)
	if owner == nil || isTeardownOwner(owner) {
		return
	}
	lookup := passSliceLookup(w, p, owner)
	phases := phasesInfo(owner, lookup)
	if len(phases) < 2 {
		// still check the naming rule below for single-phase sets
	}
	probes, _ := store.Get(owner, "spec", "availabilityProbes").([]any)
	// index: key -> phase
	idx := map[string]int{}
	dup := false
	tc := targetCluster(p)
	for i, ph := range phases {
		for _, so := range ph.Objs {
			k := tc + "|" + w.normKey(tc, so.Key).String()
			if _, ok := idx[k]; ok {
				dup = true
			}
			idx[k] = i
		}
		if ph.Class != "" {
			idx["mgmt|"+phaseObjectKey(owner, ph.Name).String()] = i
		}
	}
	if dup {
		return // duplicate objects: governed by C11
	}
	for _, r := range p.Reqs {
		if !r.IsWrite() || r.DryRun || r.Verb == "delete" {
			continue
		}
		i, ok := idx[r.Cluster+"|"+r.Key().String()]
		if !ok || i == 0 {
			continue
		}
		if isSpecPaused(owner) && r.GVK.Group == PKOGroup {
			// a paused ObjectSet hands its paused state to every delegated phase; the
			// (paused) phase object is bookkeeping, no object of the phase is written
			continue
		}
		m.touch()
		for j := 0; j < i; j++ {
			okj, _, why := phaseObserved(w, p, owner, phases[j], probes, r.Seq)
			if !okj {
				w.Report(Violation{Property: "C03", Rule: "write-before-gate", Sig: shortSite(r.Site) + "/" + r.Verb,
					Seq: r.Seq, Msg: fmt.Sprintf("pass %d of %s %s wrote %s (phase %q) although earlier phase %q had not passed in this pass: %s",
						p.ID, p.Ctrl, p.Key, r.Key(), phases[i].Name, phases[j].Name, why)})
				return
			}
		}
	}
	// naming rule: the ProbeFailure condition names the first failing phase
	for _, r := range p.Reqs {
		if r.Verb != "update-status" || r.Err != nil || r.Name != p.Key.Name || !isObjectSetKind(r.GVK.Kind) {
			continue
		}
		c := FindCond(r.Body, "Available")
		if c == nil || c.Reason != "ProbeFailure" || c.Status != "False" {
			continue
		}
		if p.Faulted || !passRanPhases(w, p, owner, phases) {
			continue // condition carried over from an earlier pass, or pre-empted by a fault
		}
		m.touch()
		named := -1
		for j, ph := range phases {
			if strings.HasPrefix(c.Message, fmt.Sprintf("Phase %q failed", ph.Name)) {
				named = j
				break
			}
		}
		if named < 0 {
			w.Report(Violation{Property: "C03", Rule: "wrong-phase-named", Sig: "no-phase-named", Seq: r.Seq,
				Msg: fmt.Sprintf("pass %d of %s %s reported ProbeFailure %q which names none of its phases", p.ID, p.Ctrl, p.Key, c.Message)})
			return
		}
		if _, failed, _ := phaseObserved(w, p, owner, phases[named], probes, r.Seq); !failed {
			w.Report(Violation{Property: "C03", Rule: "wrong-phase-named", Sig: "named-phase-passed", Seq: r.Seq,
				Msg: fmt.Sprintf("pass %d of %s %s reported ProbeFailure %q but phase %q passed on every state it observed", p.ID, p.Ctrl, p.Key, c.Message, phases[named].Name)})
			return
		}
		for j := 0; j < named; j++ {
			if passed, _, why := phaseObserved(w, p, owner, phases[j], probes, r.Seq); !passed {
				w.Report(Violation{Property: "C03", Rule: "wrong-phase-named", Sig: "earlier-phase-failed", Seq: r.Seq,
					Msg: fmt.Sprintf("pass %d of %s %s named phase %q in ProbeFailure although earlier phase %q failed on everything it observed (%s)", p.ID, p.Ctrl, p.Key, phases[named].Name, phases[j].Name, why)})
				return
			}
		}
	}
}

// passRanPhases reports whether the pass got as far as looking at any listed
// object or phase object (otherwise conditions it persists are carried over
// from the object it read, not computed by it).
func passRanPhases(w *World, p *Pass, owner store.Obj, phases []phaseInfo) bool {
	tc := targetCluster(p)
	keys := map[string]bool{}
	for _, ph := range phases {
		for _, so := range ph.Objs {
			keys[tc+"|"+w.normKey(tc, so.Key).String()] = true
		}
		if ph.Class != "" {
			keys["mgmt|"+phaseObjectKey(owner, ph.Name).String()] = true
		}
	}
	for _, r := range p.Reqs {
		if keys[r.Cluster+"|"+r.Key().String()] {
			return true
		}
	}
	return false
}
