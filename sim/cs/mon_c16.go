package cs

import (
	"fmt"
	"reflect"
	"sort"

	"package-operator.run/internal/packages/verifsim/store"
)

// MonC16: only valid, admissible packages roll out; unchanged packages are left alone.
type MonC16 struct{ BaseMon }

func (m *MonC16) ID() string { return "C16" }

func isPkgKind(k string) bool { return k == "Package" || k == "ClusterPackage" }

func pkgGen(w *World) *PKGGen {
	if w.Scenario == nil {
		return nil
	}
	g, _ := w.Scenario.Facts["pkg"].(*PKGGen)
	return g
}

// admissibleFor evaluates the generator's knowledge for a Package object.
func admissibleFor(w *World, pkg store.Obj) (ok bool, class string, img *PkgImage) {
	g := pkgGen(w)
	spec, _ := pkg["spec"].(map[string]any)
	ref, _ := spec["image"].(string)
	img = g.Reg.Images[ref]
	if img == nil {
		return false, "pull", nil
	}
	ok, class = img.Admissible(spec, g.Cluster, 0)
	return ok, class, img
}

func unpackedForGeneration(pkg store.Obj) bool {
	c := FindCond(pkg, "Unpacked")
	return c != nil && c.Status == "True" && c.ObservedGeneration == store.Int(pkg, "metadata", "generation") &&
		store.Str(pkg, "status", "unpackedHash") != ""
}

func (m *MonC16) OnReq(w *World, r *Req) {
	p := r.Pass
	if p == nil || !isPkgKind(p.Ctrl) || pkgGen(w) == nil || r.DryRun {
		return
	}
	pkg := ownerOfPass(p)
	if pkg == nil || store.Deleting(pkg) {
		return
	}
	if !isODKind(r.GVK.Kind) || !r.IsWrite() || r.GVK.Group != PKOGroup {
		return
	}
	if !r.Succeeded() {
		return
	}
	if r.Verb == "update" || r.Verb == "create" || r.Verb == "patch" || r.Verb == "delete" {
		m.touch()
		// pause propagation is the only ObjectDeployment write allowed regardless of admissibility
		if r.Verb == "update" && r.Before != nil {
			b, a := store.Copy(r.Before), store.Copy(r.Body)
			bs, _ := b["spec"].(map[string]any)
			as, _ := a["spec"].(map[string]any)
			if bs != nil && as != nil {
				delete(bs, "paused")
				delete(as, "paused")
				if reflect.DeepEqual(store.Normalize(bs), store.Normalize(as)) {
					return
				}
			}
		}
		ok, class, _ := admissibleFor(w, pkg)
		if !ok {
			w.Report(Violation{Property: "C16", Rule: "od-changed-inadmissible", Sig: class + "/" + shortSite(r.Site), Seq: r.Seq,
				Msg: fmt.Sprintf("pass %d of %s %s issued %s on %s although the package it read (spec %v) is not admissible: %s", p.ID, p.Ctrl, p.Key, r.Verb, r.Key(), pkg["spec"], class)})
			return
		}
		if unpackedForGeneration(pkg) {
			w.Report(Violation{Property: "C16", Rule: "re-pulled", Sig: "od-write/" + shortSite(r.Site), Seq: r.Seq,
				Msg: fmt.Sprintf("pass %d of %s %s issued %s on %s although the spec it read was already unpacked (generation %d)", p.ID, p.Ctrl, p.Key, r.Verb, r.Key(), store.Int(pkg, "metadata", "generation"))})
		}
	}
}

func (m *MonC16) OnPassEnd(w *World, p *Pass) {
	g := pkgGen(w)
	if g == nil || !isPkgKind(p.Ctrl) {
		return
	}
	pkg := ownerOfPass(p)
	if pkg == nil {
		return
	}
	// re-pulled: a pass that read its spec as unpacked must not pull
	if unpackedForGeneration(pkg) {
		for _, pr := range g.Reg.Pulls {
			if pr.Pass == p {
				m.touch()
				w.Report(Violation{Property: "C16", Rule: "re-pulled", Sig: "pull", Seq: pr.Seq,
					Msg: fmt.Sprintf("pass %d of %s %s pulled %s although the spec it read was already unpacked for generation %d", p.ID, p.Ctrl, p.Key, pr.Image, store.Int(pkg, "metadata", "generation"))})
				return
			}
		}
	}
}

// templateObjects lists "phase/Kind/name" of an ObjectDeployment template with slices inlined.
func templateObjects(w *World, od store.Obj) []string {
	var out []string
	holder := store.Obj{"kind": objectSetKindFor(od), "metadata": od["metadata"], "spec": store.Get(od, "spec", "template", "spec")}
	if isClusterScopedOwner(store.Str(od, "kind")) {
		holder["kind"] = "ClusterObjectSet"
	} else {
		holder["kind"] = "ObjectSet"
	}
	for _, so := range SpecObjects(holder, w.sliceLookup(holder)) {
		out = append(out, so.PhaseName+"/"+so.Key.Kind+"/"+so.Key.Name)
	}
	sort.Strings(out)
	return out
}

func (m *MonC16) OnQuiescent(w *World, epoch int) {
	g := pkgGen(w)
	if g == nil {
		return
	}
	for _, key := range g.Keys {
		pkg, ok := w.Mgmt.Objs[key]
		if !ok || store.Deleting(pkg) {
			continue
		}
		if b, _ := store.Get(pkg, "spec", "paused").(bool); b {
			continue
		}
		m.touch()
		adm, class, img := admissibleFor(w, pkg)
		odKind := "ObjectDeployment"
		if g.Cluster {
			odKind = "ClusterObjectDeployment"
		}
		od := w.Mgmt.Objs[store.Key{Group: PKOGroup, Kind: odKind, Namespace: key.Namespace, Name: key.Name}]
		switch {
		case adm:
			want := img.ExpectedObjects(key.Name, pkg["spec"].(map[string]any))
			if od == nil {
				w.Report(Violation{Property: "C16", Rule: "template-stale", Sig: "no-deployment", Msg: fmt.Sprintf("at quiescence %s (spec %v) is admissible but has no ObjectDeployment", key, pkg["spec"])})
				continue
			}
			got := templateObjects(w, od)
			if !reflect.DeepEqual(want, got) {
				w.Report(Violation{Property: "C16", Rule: "template-stale", Sig: "differs", Msg: fmt.Sprintf("at quiescence the ObjectDeployment template of %s lists %v, a fresh render of the current spec %v gives %v", key, got, pkg["spec"], want)})
			}
			if img.NeedsColor && img.Class == "needs-config" {
				// the rendered content follows the config
				color, _ := store.Get(pkg, "spec", "config", "color").(string)
				holder := store.Obj{"kind": "ObjectSet", "metadata": od["metadata"], "spec": store.Get(od, "spec", "template", "spec")}
				if g.Cluster {
					holder["kind"] = "ClusterObjectSet"
				}
				for _, so := range SpecObjects(holder, w.sliceLookup(holder)) {
					if so.Key.Kind == "ConfigMap" {
						if k := store.Str(so.Obj, "data", "k"); k != color {
							w.Report(Violation{Property: "C16", Rule: "template-stale", Sig: "config-not-applied", Msg: fmt.Sprintf("at quiescence %s renders data.k=%q in %s although spec.config.color=%q", key, k, so.Key.Name, color)})
						}
					}
				}
			}
		case class == "pull":
			if !hasCond(pkg, "Unpacked", "False") {
				w.Report(Violation{Property: "C16", Rule: "condition-missing", Sig: "unpacked-false", Msg: fmt.Sprintf("at quiescence %s cannot be pulled but does not show Unpacked=False (conditions %v)", key, Conditions(pkg))})
			}
		case class == "load" || class == "constraint":
			if !hasCond(pkg, "Invalid", "True") {
				w.Report(Violation{Property: "C16", Rule: "condition-missing", Sig: "invalid-true/" + class, Msg: fmt.Sprintf("at quiescence %s is inadmissible (%s) but does not show Invalid=True (conditions %v)", key, class, Conditions(pkg))})
			}
		}
	}
}

func hasCond(o store.Obj, typ, status string) bool {
	c := FindCond(o, typ)
	return c != nil && c.Status == status
}
