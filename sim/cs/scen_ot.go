package cs

import (
	"fmt"
	"strings"

	"package-operator.run/internal/packages/verifsim/store"
)

// OTGen is the generated ObjectTemplate scenario.
type OTGen struct {
	Cluster bool
	Kind    string
	Key     store.Key
	// template variant: valid | unparsable | cluster-target | foreign-target | not-an-object
	// (kept up to date by the user operations)
	Variants []string
}

type otSource struct {
	Kind, API, Name, NS string
	Optional            bool
	Cluster             bool
}

func otTemplate(variant string) string {
	switch variant {
	case "unparsable":
		return "apiVersion: v1\nkind: ConfigMap\nmetadata:\n  name: ot-target\ndata:\n  a: {{ .config.a \n"
	case "cluster-target":
		return "apiVersion: sim.example/v1\nkind: ClusterWidget\nmetadata:\n  name: ot-cw\nspec:\n  size: 1\n"
	case "widget-target":
		return "apiVersion: sim.example/v1\nkind: Widget\nmetadata:\n  name: ot-widget\nspec:\n  size: 1\n  a: \"{{ index .config \"a\" }}\"\n"
	case "not-an-object":
		return "just a string, not an object: [\n"
	case "empty":
		return ""
	case "needs-b":
		// cannot be rendered while the optional source b is missing (len of nothing is an error)
		return "apiVersion: v1\nkind: ConfigMap\nmetadata:\n  name: ot-target\ndata:\n  a: \"{{ .config.a }}\"\n  blen: \"{{ len (index .config \"b\") }}\"\n"
	case "foreign-target":
		return "apiVersion: v1\nkind: ConfigMap\nmetadata:\n  name: ot-target\n  namespace: ns2\ndata:\n  a: \"{{ .config.a }}\"\n"
	}
	return "apiVersion: v1\nkind: ConfigMap\nmetadata:\n  name: ot-target\ndata:\n  a: \"{{ .config.a }}\"\n  b: \"{{ default \"none\" (index .config \"b\") }}\"\n  v: \"{{ .environment.kubernetes.version }}\"\n"
}

// GenOT generates one (Cluster)ObjectTemplate with 1-3 sources and a history of source/template changes.
func GenOT(w *World, maxEdits int, opts ...string) *Scenario {
	hostile := len(opts) > 0 && opts[0] == "hostile"
	s := w.Scn
	sc := &Scenario{Family: "S-OT", Facts: map[string]any{}}
	g := &OTGen{Kind: "ObjectTemplate"}
	sc.Facts["ot"] = g
	g.Cluster = s.Chance(1, 4, "cluster-scoped")
	ns := nsMain
	if g.Cluster {
		g.Kind, ns = "ClusterObjectTemplate", ""
	}
	g.Key = store.Key{Group: PKOGroup, Kind: g.Kind, Namespace: ns, Name: "ot-1"}
	user := w.TP("user", w.Mgmt)
	for _, n := range []string{nsMain, nsForeign} {
		_, err := user.Create(store.Obj{"apiVersion": "v1", "kind": "Namespace", "metadata": map[string]any{"name": n}})
		must(err)
	}
	// sources: a (required, ConfigMap), b (optional, Secret), plus possibly an offending one
	srcA := otSource{Kind: "ConfigMap", API: "v1", Name: "src-a", NS: nsMain}
	srcB := otSource{Kind: "Secret", API: "v1", Name: "src-b", NS: nsMain, Optional: true}
	if !g.Cluster && s.Bool("implicit-ns") {
		srcA.NS, srcB.NS = "", ""
	}
	sources := []any{
		map[string]any{"apiVersion": srcA.API, "kind": srcA.Kind, "name": srcA.Name, "namespace": srcA.NS,
			"items": []any{map[string]any{"key": ".data.k", "destination": ".a"}}},
	}
	if s.Chance(2, 3, "with-optional") {
		sources = append(sources, map[string]any{"apiVersion": srcB.API, "kind": srcB.Kind, "name": srcB.Name, "namespace": srcB.NS, "optional": true,
			"items": []any{map[string]any{"key": ".data.k", "destination": ".b"}}})
	}
	bad := ""
	if !g.Cluster {
		switch s.Intn(6, "bad-source") {
		case 1:
			bad = "foreign-namespace source"
			sources = append(sources, map[string]any{"apiVersion": "v1", "kind": "ConfigMap", "name": "src-foreign", "namespace": nsForeign,
				"items": []any{map[string]any{"key": ".data.k", "destination": ".c"}}})
		case 2:
			bad = "cluster-scoped source"
			sources = append(sources, map[string]any{"apiVersion": "sim.example/v1", "kind": "ClusterWidget", "name": "src-cw",
				"items": []any{map[string]any{"key": ".spec.size", "destination": ".c"}}})
		}
	}
	if len(sources) > 1 && s.Bool("optional-first") {
		// the order of spec.sources is the user's: an optional source may come before a required one
		sources[0], sources[1] = sources[1], sources[0]
	}
	for i := range sources {
		if m := sources[i].(map[string]any); m["namespace"] == "" {
			delete(m, "namespace")
		}
	}
	variants := []string{"valid", "valid", "valid", "unparsable", "cluster-target", "foreign-target", "needs-b"}
	if g.Cluster {
		variants = []string{"valid", "valid", "unparsable"}
	}
	// nested: both sources write below one top-level key (.n.a / .n.b) - the values of one source must not
	// replace what another source put next to them
	nested := !hostile && s.Chance(1, 4, "nested-destinations")
	if nested {
		variants = []string{"valid", "valid", "unparsable", "cluster-target"}
		if g.Cluster {
			variants = []string{"valid", "valid", "unparsable"}
		}
		for _, sx := range sources {
			for _, ix := range sx.(map[string]any)["items"].([]any) {
				im := ix.(map[string]any)
				if d, _ := im["destination"].(string); d == ".a" || d == ".b" {
					im["destination"] = ".n" + d
				}
			}
		}
	}
	if hostile {
		variants = append(variants, "widget-target", "widget-target", "not-an-object", "empty")
	}
	variant := variants[s.Intn(len(variants), "template-variant")]
	nest := func(t string) string {
		if !nested {
			return t
		}
		t = strings.ReplaceAll(t, "{{ .config.a }}", "{{ .config.n.a }}")
		return strings.ReplaceAll(t, "(index .config \"b\")", "(index .config.n \"b\")")
	}
	tpl := nest(otTemplate(variant))
	if hostile {
		// odd source items: keys/destinations the CRD accepts. No wildcard over a map with several entries:
		// k8s jsonpath walks Go maps in random order there, which no seed controls
		oddKeys := []string{".data.k", "", "data.k", "{.data.k}", "{.data", ".data.*", ".data.*", ".data[*]", ".data.list[*]", ".data.k.deeper", ".metadata.labels", `.metadata.labels[?(@=="never")]`, `.data[?(@.x=="y")]`}
		oddDest := []string{".a", "", "a", ".a.b", ".a..b", ".", "..", ".a.0"}
		for _, sx := range sources {
			sm := sx.(map[string]any)
			if s.Bool("odd-item") {
				sm["items"] = []any{map[string]any{"key": oddKeys[s.Intn(len(oddKeys), "odd-key")], "destination": oddDest[s.Intn(len(oddDest), "odd-dest")]}}
			}
		}
	}
	if g.Cluster && variant == "valid" {
		tpl = nest("apiVersion: v1\nkind: ConfigMap\nmetadata:\n  name: ot-target\n  namespace: ns1\ndata:\n  a: \"{{ .config.a }}\"\n  b: \"{{ default \"none\" (index .config \"b\") }}\"\n  v: \"{{ .environment.kubernetes.version }}\"\n")
	}
	g.Variants = []string{variant}
	ot := store.Obj{"apiVersion": PKOGroup + "/" + PKOVer, "kind": g.Kind, "metadata": map[string]any{"name": "ot-1"},
		"spec": map[string]any{"template": tpl, "sources": sources}}
	if !g.Cluster {
		store.Meta(ot)["namespace"] = ns
	}
	sc.Desc = append(sc.Desc, fmt.Sprintf("%s ot-1 template=%s sources=%d bad=%q", g.Kind, variant, len(sources), bad))
	sc.Facts["bad-source"] = bad
	mkSrc := func(src otSource, val string) store.Obj {
		return store.Obj{"apiVersion": src.API, "kind": src.Kind, "metadata": map[string]any{"name": src.Name, "namespace": nsMain}, "data": map[string]any{"k": val}}
	}
	// what exists at start
	if s.Chance(2, 3, "src-a-present") {
		_, err := user.Create(mkSrc(srcA, "a0"))
		must(err)
	}
	if s.Chance(1, 3, "src-b-present") {
		_, err := user.Create(mkSrc(srcB, "b0"))
		must(err)
	}
	if bad == "foreign-namespace source" {
		_, _ = user.Create(store.Obj{"apiVersion": "v1", "kind": "ConfigMap", "metadata": map[string]any{"name": "src-foreign", "namespace": nsForeign}, "data": map[string]any{"k": "f"}})
	}
	if bad == "cluster-scoped source" {
		_, _ = user.Create(store.Obj{"apiVersion": "sim.example/v1", "kind": "ClusterWidget", "metadata": map[string]any{"name": "src-cw"}, "spec": map[string]any{"size": int64(3)}})
	}
	_, err := user.Create(ot)
	must(err)
	nE := s.Intn(maxEdits+1, "nEdits")
	for i := 0; i < nE; i++ {
		src := srcA
		if s.Bool("edit-b") {
			src = srcB
		}
		key := store.Key{Group: "", Kind: src.Kind, Namespace: nsMain, Name: src.Name}
		val := fmt.Sprintf("%s%d", string(src.Name[len(src.Name)-1]), i+1)
		if s.Chance(1, 4, "empty-value") {
			val = "" // a value going back to empty must reach the target like any other change
		}
		switch s.Weighted([]int{4, 2, 1, 1}, "ot-op") {
		case 0:
			sc.UserOps = append(sc.UserOps, UserOp{Label: "set " + src.Name + "=" + val, Do: func(w *World) {
				tp := w.TP("user", w.Mgmt)
				if _, ok := w.Mgmt.Objs[key]; ok {
					_, _ = tp.Mutate(key, func(o store.Obj) { o["data"] = map[string]any{"k": val} })
				} else {
					_, _ = tp.Create(mkSrc(src, val))
				}
			}})
		case 1:
			sc.UserOps = append(sc.UserOps, UserOp{Label: "delete " + src.Name, Do: func(w *World) { _ = w.TP("user", w.Mgmt).Delete(key, "Background") }})
		case 2:
			nv := variants[s.Intn(len(variants), "new-variant")]
			ntpl := nest(otTemplate(nv))
			if g.Cluster && nv == "valid" {
				ntpl = tpl
			}
			sc.UserOps = append(sc.UserOps, UserOp{Label: "template -> " + nv, Do: func(w *World) {
				_, _ = w.TP("user", w.Mgmt).Mutate(g.Key, func(o store.Obj) { o["spec"].(map[string]any)["template"] = ntpl })
			}})
		case 3:
			if i == nE-1 {
				sc.UserOps = append(sc.UserOps, UserOp{Label: "delete ot-1", Do: func(w *World) { _ = w.TP("user", w.Mgmt).Delete(g.Key, "Background") }})
			} else if !hostile {
				// delete the template and bring it back (new UID): its watches are released and taken again
				again := store.Copy(ot)
				sc.UserOps = append(sc.UserOps, UserOp{Label: "delete ot-1 (to be re-created)", Do: func(w *World) { _ = w.TP("user", w.Mgmt).Delete(g.Key, "Background") }})
				sc.UserOps = append(sc.UserOps, UserOp{Label: "re-create ot-1", Do: func(w *World) {
					if _, exists := w.Mgmt.Objs[g.Key]; !exists {
						_, _ = w.TP("user", w.Mgmt).Create(store.Copy(again))
					}
				}})
			}
		}
	}
	w.AddAgent(&GCAgent{Cluster: "mgmt"})
	return sc
}
