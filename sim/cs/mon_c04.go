package cs

import (
	"fmt"
	"strings"

	"package-operator.run/internal/packages/verifsim/store"
)

// MonC04: teardown runs in reverse phase order and holds the finalizer until done.
type MonC04 struct{ BaseMon }

func (m *MonC04) ID() string { return "C04" }

// stillControlled lists the objects listed by owner (slices resolved on the store
// head) that are, in the store right now, controlled by owner or by one of its
// phase objects. phaseFrom restricts to phases with index > phaseFrom (-1 = all).
func (w *World) stillControlled(owner store.Obj, phaseFrom int) []string {
	var out []string
	phases := phasesInfo(owner, w.sliceLookup(owner))
	for i, ph := range phases {
		if i <= phaseFrom {
			continue
		}
		if ph.Class != "" {
			pk := phaseObjectKey(owner, ph.Name)
			po, ok := w.Mgmt.Objs[pk]
			if !ok || !IsControlledBy(po, owner, "native") {
				continue // gone, or orphaned / taken over: no longer one of the owner's phase objects
			}
			out = append(out, "phase object "+pk.String())
			// objects controlled by the phase object
			cluster, strategy := "mgmt", "native"
			if ph.Class == "hosted-cluster" {
				cluster, strategy = "hosted", "annotation"
			}
			cl := w.Cluster(cluster)
			if cl == nil {
				continue
			}
			for _, so := range ph.Objs {
				k := w.normKey(cluster, so.Key)
				if o, ok := cl.Objs[k]; ok && IsControlledBy(o, po, strategy) {
					out = append(out, cluster+" "+k.String()+" (via phase object)")
				}
			}
			continue
		}
		for _, so := range ph.Objs {
			k := w.normKey("mgmt", so.Key)
			if o, ok := w.Mgmt.Objs[k]; ok && IsControlledBy(o, owner, "native") {
				out = append(out, "mgmt "+k.String())
			}
		}
	}
	return out
}

func hasSlices(owner store.Obj) bool {
	for _, px := range PhasesOf(owner) {
		p, _ := px.(map[string]any)
		if sl, _ := p["slices"].([]any); len(sl) > 0 {
			return true
		}
	}
	return false
}

// dryRunViolationReasons are the API status reasons the dry-run preflight check turns into a
// "violation" (internal/preflight/dryrun.go); during teardown a violation makes the phase
// reconciler count the object as cleaned up.
var dryRunViolationReasons = map[string]bool{"Unauthorized": true, "Forbidden": true, "AlreadyExists": true, "Conflict": true, "Invalid": true,
	"BadRequest": true, "MethodNotAllowed": true, "RequestEntityTooLarge": true, "UnsupportedMediaType": true, "NotAcceptable": true, "NotFound": true}

// afterDryRunRejection reports whether, in this pass, the dry run of one of the objects in left was
// answered with one of those reasons (known finding: teardown then abandons the object).
func afterDryRunRejection(p *Pass, left []string) string {
	for _, r := range p.Reqs {
		if !r.DryRun || r.Err == nil || !dryRunViolationReasons[r.ErrReason()] {
			continue
		}
		for _, l := range left {
			if strings.Contains(l, r.Key().String()) {
				return "after-dry-run-rejection"
			}
		}
	}
	return ""
}

func sigOr(taint, sig string) string {
	if taint != "" {
		return taint
	}
	return sig
}

func causeTag(owner store.Obj) string {
	if hasSlices(owner) {
		return "sliced"
	}
	return "inline"
}

func (m *MonC04) OnReq(w *World, r *Req) {
	p := r.Pass
	if p == nil || !r.IsWrite() || r.DryRun || !r.Succeeded() {
		return
	}
	if (isObjectSetKind(p.Ctrl) || isPhaseKind(p.Ctrl)) && r.GVK.Group != PKOGroup && (r.Verb == "create" || r.Verb == "patch" || r.Verb == "update") {
		// "the finalizer stays until ...": it has to be there before the owner takes control of anything,
		// or a deletion in between removes the owner without any teardown
		if o := ownerOfPass(p); o != nil && !isTeardownOwner(o) {
			cur, ok := w.Mgmt.Objs[store.KeyOf(o)]
			if ok && store.Str(cur, "metadata", "uid") == store.Str(o, "metadata", "uid") && !store.HasFinalizer(cur, finCached) && !store.Deleting(cur) &&
				r.After != nil && IsControlledBy(r.After, o, strategyOf(p)) {
				m.touch()
				w.Report(Violation{Property: "C04", Rule: "write-without-finalizer", Sig: shortSite(r.Site), Seq: r.Seq,
					Msg: fmt.Sprintf("pass %d of %s %s took control of %s while the owner does not carry the %s finalizer yet", p.ID, p.Ctrl, p.Key, r.Key(), finCached)})
				return
			}
		}
	}
	if !isObjectSetKind(p.Ctrl) {
		return
	}
	owner := ownerOfPass(p)
	if owner == nil || !isTeardownOwner(owner) {
		return
	}
	if store.HasFinalizer(owner, "orphan") {
		return // governed by C05's orphan clause
	}
	ownerKey := store.KeyOf(owner)
	// delete-out-of-order
	if r.Verb == "delete" && r.Key() != ownerKey {
		phases := phasesInfo(owner, w.sliceLookup(owner))
		idx := -1
		for i, ph := range phases {
			if ph.Class != "" && phaseObjectKey(owner, ph.Name) == r.Key() {
				idx = i
			}
			for _, so := range ph.Objs {
				if ph.Class == "" && w.normKey("mgmt", so.Key) == r.Key() {
					idx = i
				}
			}
		}
		if idx >= 0 {
			m.touch()
			if left := w.stillControlled(owner, idx); len(left) > 0 {
				w.Report(Violation{Property: "C04", Rule: "delete-out-of-order", Sig: sigOr(afterDryRunRejection(p, left), shortSite(r.Site)+"/"+causeTag(owner)), Seq: r.Seq,
					Msg: fmt.Sprintf("pass %d of %s %s deleted %s (phase %q) while objects of later phases are still controlled by it: %v", p.ID, p.Ctrl, p.Key, r.Key(), phases[idx].Name, left)})
			}
		}
		return
	}
	if r.Key() != ownerKey {
		return
	}
	// finalizer removed
	if r.Before != nil && store.HasFinalizer(r.Before, finCached) && (r.After == nil || !store.HasFinalizer(r.After, finCached)) {
		m.touch()
		if left := w.stillControlled(owner, -1); len(left) > 0 {
			w.Report(Violation{Property: "C04", Rule: "finalizer-early", Sig: sigOr(afterDryRunRejection(p, left), shortSite(r.Site)+"/"+causeTag(owner)), Seq: r.Seq,
				Msg: fmt.Sprintf("pass %d of %s %s removed its finalizer while it still controls: %v", p.ID, p.Ctrl, p.Key, left)})
		}
		return
	}
	if r.Verb == "update-status" {
		c := FindCond(r.Body, "Archived")
		left := w.stillControlled(owner, -1)
		if c != nil && c.Status == "True" {
			m.touch()
			if len(left) > 0 {
				w.Report(Violation{Property: "C04", Rule: "archived-early", Sig: sigOr(afterDryRunRejection(p, left), shortSite(r.Site)+"/"+causeTag(owner)), Seq: r.Seq,
					Msg: fmt.Sprintf("pass %d of %s %s reported Archived=True while it still controls: %v", p.ID, p.Ctrl, p.Key, left)})
			}
			return
		}
		if store.Str(owner, "spec", "lifecycleState") == "Archived" && !store.Deleting(owner) && len(left) > 0 && r.After != nil &&
			store.HasFinalizer(r.After, finCached) {
			m.touch()
			if c == nil || c.Status != "False" {
				w.Report(Violation{Property: "C04", Rule: "archived-false", Sig: shortSite(r.Site) + "/" + causeTag(owner), Seq: r.Seq,
					Msg: fmt.Sprintf("pass %d of %s %s is archived and still tearing down (%v) but its status update does not report Archived=False", p.ID, p.Ctrl, p.Key, left)})
			}
		}
	}
}
