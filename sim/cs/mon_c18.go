package cs

import (
	"fmt"
	"strings"

	"package-operator.run/internal/packages/verifsim/store"
)

// MonC18: ObjectTemplates track their sources and stay within bounds.
type MonC18 struct{ BaseMon }

func (m *MonC18) ID() string { return "C18" }

func isOTKind(k string) bool { return k == "ObjectTemplate" || k == "ClusterObjectTemplate" }

// otState evaluates, from the store, what the template must render to:
// invalid reason ("" if valid) and the expected target data.
func otExpectation(w *World, ot store.Obj) (invalid string, data map[string]string, targetKey store.Key) {
	ns := store.Str(ot, "metadata", "namespace")
	tpl := store.Str(ot, "spec", "template")
	cfg := map[string]string{}
	srcs, _ := store.Get(ot, "spec", "sources").([]any)
	for _, sx := range srcs {
		sm, _ := sx.(map[string]any)
		kind, _ := sm["kind"].(string)
		name, _ := sm["name"].(string)
		sns, _ := sm["namespace"].(string)
		opt, _ := sm["optional"].(bool)
		api, _ := sm["apiVersion"].(string)
		gk := store.Key{Group: groupOf(api), Kind: kind}
		ki, err := w.Mgmt.Kind(gk.GK())
		if err != nil {
			return "source API missing", nil, targetKey
		}
		if ns != "" {
			if !ki.Namespaced {
				return "cluster-scoped source", nil, targetKey
			}
			if sns != "" && sns != ns {
				return "foreign-namespace source", nil, targetKey
			}
		}
		if sns == "" {
			sns = ns
		}
		if !ki.Namespaced {
			sns = ""
		}
		o, ok := w.Mgmt.Objs[store.Key{Group: gk.Group, Kind: kind, Namespace: sns, Name: name}]
		if !ok {
			if opt {
				continue
			}
			return "required source missing", nil, targetKey
		}
		items, _ := sm["items"].([]any)
		for _, ix := range items {
			im, _ := ix.(map[string]any)
			dest, _ := im["destination"].(string)
			key, _ := im["key"].(string)
			v, found := fieldAt(o, key)
			if !found {
				return "source key missing", nil, targetKey
			}
			// destinations are .a/.b, or .n.a/.n.b when the scenario nests them below one key
			cfg[strings.TrimPrefix(strings.TrimPrefix(dest, "."), "n.")] = fmt.Sprint(v)
		}
	}
	switch {
	case strings.Contains(tpl, "{{ .config.a \n"):
		return "unparsable template", nil, targetKey
	case strings.Contains(tpl, "kind: ClusterWidget"):
		if ns != "" {
			return "cluster-scoped target", nil, targetKey
		}
	case strings.Contains(tpl, "namespace: ns2"):
		if ns != "" {
			return "foreign-namespace target", nil, targetKey
		}
	}
	tns := ns
	if tns == "" {
		tns = nsMain
	}
	targetKey = store.Key{Kind: "ConfigMap", Namespace: tns, Name: "ot-target"}
	if strings.Contains(tpl, "blen:") {
		bv, has := cfg["b"]
		if !has {
			return "template cannot be rendered without the optional source", nil, targetKey
		}
		av, ok := cfg["a"]
		if !ok {
			av = "<no value>"
		}
		return "", map[string]string{"a": av, "blen": fmt.Sprint(len(bv))}, targetKey
	}
	b := cfg["b"]
	if b == "" {
		b = "none" // sprig default: an empty value counts as not given, like a missing one
	}
	a, ok := cfg["a"]
	if !ok {
		a = "<no value>"
	}
	return "", map[string]string{"a": a, "b": b, "v": "1.27.3"}, targetKey
}

func (m *MonC18) OnReq(w *World, r *Req) {
	p := r.Pass
	if p == nil || !isOTKind(p.Ctrl) || r.DryRun || !r.IsWrite() || r.GVK.Group == PKOGroup {
		return
	}
	ot := ownerOfPass(p)
	if ot == nil {
		return
	}
	// written-when-invalid: judged on the template the pass read and the sources in the store
	// at that instant for structural reasons that do not depend on timing
	tpl := store.Str(ot, "spec", "template")
	ns := store.Str(ot, "metadata", "namespace")
	invalid := ""
	switch {
	case strings.Contains(tpl, "{{ .config.a \n"):
		invalid = "unparsable template"
	case ns != "" && strings.Contains(tpl, "kind: ClusterWidget"):
		invalid = "cluster-scoped target"
	case ns != "" && strings.Contains(tpl, "namespace: ns2"):
		invalid = "foreign-namespace target"
	}
	srcs, _ := store.Get(ot, "spec", "sources").([]any)
	for _, sx := range srcs {
		sm, _ := sx.(map[string]any)
		sns, _ := sm["namespace"].(string)
		kind, _ := sm["kind"].(string)
		if ns != "" && sns != "" && sns != ns {
			invalid = "foreign-namespace source"
		}
		if ns != "" && kind == "ClusterWidget" {
			invalid = "cluster-scoped source"
		}
	}
	// the only writes that are not target writes: labelling a source for the cache
	isSource := false
	for _, sx := range srcs {
		sm, _ := sx.(map[string]any)
		if sm["name"] == r.Name && sm["kind"] == r.GVK.Kind {
			isSource = true
		}
	}
	if isSource {
		return
	}
	m.touch()
	if invalid != "" && r.Succeeded() {
		w.Report(Violation{Property: "C18", Rule: "written-when-invalid", Sig: strings.ReplaceAll(invalid, " ", "-") + "/" + shortSite(r.Site), Seq: r.Seq,
			Msg: fmt.Sprintf("pass %d of %s %s issued %s on %s although the template it read is invalid: %s", p.ID, p.Ctrl, p.Key, r.Verb, r.Key(), invalid)})
		return
	}
	// required source missing as the pass observed it
	for _, sx := range srcs {
		sm, _ := sx.(map[string]any)
		if opt, _ := sm["optional"].(bool); opt {
			continue
		}
		name, _ := sm["name"].(string)
		kind, _ := sm["kind"].(string)
		sns, _ := sm["namespace"].(string)
		if sns == "" {
			sns = ns
		}
		api, _ := sm["apiVersion"].(string)
		k := w.normKey("mgmt", store.Key{Group: groupOf(api), Kind: kind, Namespace: sns, Name: name})
		obs := p.Observations("mgmt", k, r.Seq)
		present := false
		for _, o := range obs {
			if o != nil {
				present = true
			}
		}
		if !present && r.Succeeded() {
			w.Report(Violation{Property: "C18", Rule: "written-when-invalid", Sig: "required-source-missing/" + shortSite(r.Site), Seq: r.Seq,
				Msg: fmt.Sprintf("pass %d of %s %s issued %s on %s although it never observed the required source %s", p.ID, p.Ctrl, p.Key, r.Verb, r.Key(), k)})
			return
		}
	}
}

func (m *MonC18) OnQuiescent(w *World, epoch int) {
	var g *OTGen
	if w.Scenario != nil {
		g, _ = w.Scenario.Facts["ot"].(*OTGen)
	}
	if g == nil {
		return
	}
	ot, exists := w.Mgmt.Objs[g.Key]
	if !exists {
		// watch-leaked: no owner entry of the deleted template may remain in the dynamic cache
		m.touch()
		for _, p := range w.Procs {
			if p.DynCache == nil || p.Dead {
				continue
			}
			for gvk, refs := range p.DynCache.SimReferences() {
				for _, ref := range refs {
					if ref.Kind == g.Kind && ref.Name == g.Key.Name {
						w.Report(Violation{Property: "C18", Rule: "watch-leaked", Sig: "owner-entry", Msg: fmt.Sprintf("after deletion of %s the dynamic cache still holds its watch on %s", g.Key, gvk)})
					}
				}
			}
		}
		return
	}
	if store.Deleting(ot) {
		return
	}
	m.touch()
	invalid, data, tk := otExpectation(w, ot)
	if invalid != "" {
		if invalid == "source key missing" || invalid == "source API missing" {
			return
		}
		if !CondTrue(ot, "package-operator.run/Invalid") {
			w.Report(Violation{Property: "C18", Rule: "invalid-missing", Sig: strings.ReplaceAll(invalid, " ", "-"), Msg: fmt.Sprintf("at quiescence %s is invalid (%s) but does not report the Invalid condition (conditions %v)", g.Key, invalid, Conditions(ot))})
		}
		return
	}
	target, ok := w.Mgmt.Objs[tk]
	if !ok {
		w.Report(Violation{Property: "C18", Rule: "target-stale", Sig: "missing", Msg: fmt.Sprintf("at quiescence %s is valid but its target %s does not exist (conditions %v)", g.Key, tk, Conditions(ot))})
		return
	}
	for k, v := range data {
		if got := store.Str(target, "data", k); got != v {
			w.Report(Violation{Property: "C18", Rule: "target-stale", Sig: "differs", Msg: fmt.Sprintf("at quiescence target %s has data.%s=%q, rendering the current sources gives %q", tk, k, got, v)})
			return
		}
	}
}
