package cs

import (
	"fmt"
	"strings"

	"package-operator.run/internal/packages/verifsim/store"
)

// MonC01: collision protection — foreign objects are never taken over unasked.
type MonC01 struct{ BaseMon }

func (m *MonC01) ID() string { return "C01" }

func objectSetKindFor(owner store.Obj) string {
	if isClusterScopedOwner(store.Str(owner, "kind")) {
		return "ClusterObjectSet"
	}
	return "ObjectSet"
}

func phaseKindFor(owner store.Obj) string {
	if isClusterScopedOwner(store.Str(owner, "kind")) {
		return "ClusterObjectSetPhase"
	}
	return "ObjectSetPhase"
}

// observedPrevious returns the declared previous revisions as the pass observed them.
func observedPrevious(p *Pass, owner store.Obj) []store.Obj {
	var out []store.Obj
	prev, _ := store.Get(owner, "spec", "previous").([]any)
	for _, px := range prev {
		pm, _ := px.(map[string]any)
		name, _ := pm["name"].(string)
		k := store.Key{Group: PKOGroup, Kind: objectSetKindFor(owner), Namespace: store.Str(owner, "metadata", "namespace"), Name: name}
		o, _ := p.LastSeen("mgmt", k, 0)
		out = append(out, o) // may be nil (not found / not read)
	}
	return out
}

// ownerRevision is the revision number the owner acts under in this pass (0 = unknown/unassigned).
func ownerRevision(p *Pass, owner store.Obj) int64 {
	if isPhaseKind(store.Str(owner, "kind")) {
		return store.Int(owner, "spec", "revision")
	}
	if r := store.Int(owner, "status", "revision"); r != 0 {
		return r
	}
	// assigned in this very pass: what the pass wrote into its own status is what it acts under
	for _, rq := range p.Reqs {
		if rq.Verb == "update-status" && rq.GVK.Kind == p.Ctrl && rq.Name == p.Key.Name && rq.NS == p.Key.Namespace && rq.Body != nil {
			if r := store.Int(rq.Body, "status", "revision"); r != 0 {
				return r
			}
		}
	}
	prev, _ := store.Get(owner, "spec", "previous").([]any)
	if len(prev) == 0 {
		return 1
	}
	var max int64
	for _, po := range observedPrevious(p, owner) {
		if po == nil {
			continue // garbage collected previous revision: contributes nothing
		}
		r := store.Int(po, "status", "revision")
		if r == 0 {
			return 0
		}
		if r > max {
			max = r
		}
	}
	return max + 1
}

// adoptionPermitted is the adoption table of the C01 statement.
func adoptionPermitted(w *World, obs, owner store.Obj, rev int64, previous []store.Obj, cp, strategy string, forced bool) (bool, string) {
	objRev, ok := RecordedRevision(obs)
	if !ok {
		return false, "revision annotation unparsable"
	}
	if objRev > rev {
		return false, "object belongs to a newer revision"
	}
	if forced || store.Labels(obs)[lblPackage] == "package-operator" {
		cp = "None"
	}
	ctrls := Controllers(obs, strategy)
	switch cp {
	case "None":
		return true, "None"
	case "IfNoController":
		if len(ctrls) == 0 {
			return true, "IfNoController/no controller"
		}
	}
	byPrev := false
	for _, c := range ctrls {
		for _, po := range previous {
			if po == nil {
				continue
			}
			if c.Is(po) {
				byPrev = true
			}
			rps, _ := store.Get(po, "status", "remotePhases").([]any)
			for _, rx := range rps {
				rm, _ := rx.(map[string]any)
				n, _ := rm["name"].(string)
				u, _ := rm["uid"].(string)
				if c.Group == PKOGroup && c.Kind == phaseKindFor(po) && c.Name == n && c.UID == u {
					byPrev = true
				}
			}
			// ground truth beside PKO's own bookkeeping in status.remotePhases: the controller is a
			// phase object that exists and is itself controlled by the previous revision
			if w != nil && c.Group == PKOGroup && c.Kind == phaseKindFor(po) {
				pk := store.Key{Group: PKOGroup, Kind: c.Kind, Namespace: store.Str(po, "metadata", "namespace"), Name: c.Name}
				if pho, ok := w.Mgmt.Objs[pk]; ok && store.Str(pho, "metadata", "uid") == c.UID && IsControlledBy(pho, po, "native") {
					byPrev = true
				}
			}
		}
	}
	if !byPrev {
		return false, "controller is not a declared previous revision"
	}
	if objRev >= rev {
		return false, "revision not lower than the owner's"
	}
	return true, "controlled by previous revision"
}

// rolloutObjects lists the objects a rollout pass of this controller handles itself.
func rolloutObjects(w *World, p *Pass, owner store.Obj) []SpecObject {
	var out []SpecObject
	for _, so := range SpecObjects(owner, passSliceLookup(w, p, owner)) {
		if isObjectSetKind(p.Ctrl) && so.Class != "" {
			continue // delegated: handled by the phase controller
		}
		out = append(out, so)
	}
	return out
}

func isSpecPaused(owner store.Obj) bool {
	if isPhaseKind(store.Str(owner, "kind")) {
		b, _ := store.Get(owner, "spec", "paused").(bool)
		return b
	}
	return store.Str(owner, "spec", "lifecycleState") == "Paused"
}

func (m *MonC01) OnPassEnd(w *World, p *Pass) {
	if !isObjectSetKind(p.Ctrl) && !isPhaseKind(p.Ctrl) {
		return
	}
	owner := ownerOfPass(p)
	if owner == nil || isTeardownOwner(owner) || isSpecPaused(owner) {
		return
	}
	if isPhaseKind(p.Ctrl) {
		class := store.Labels(owner)["package-operator.run/phase-class"]
		if (p.Proc == "manager") != (class == "default") {
			return
		}
	}
	// refusal-not-retried: "a permitted adoption is always carried out" - what makes an adoption permitted
	// (a foreign controller lets go of an object PKO's cache does not even see) need not produce an event,
	// so a pass that reports a refusal and asks for no retry may have decided for good
	if !p.Faulted && !p.Crashed && p.Panic == "" && p.Err == nil && !p.Requeue && p.After <= 0 {
		for _, r := range p.Reqs {
			if r.Verb == "update-status" && r.Succeeded() && r.Name == p.Key.Name && r.GVK.Kind == p.Ctrl {
				if c := FindCond(r.Body, "Available"); c != nil && c.Status == "False" && c.Reason == "CollisionDetected" {
					m.touch()
					w.Report(Violation{Property: "C01", Rule: "refusal-not-retried", Sig: p.Ctrl, Seq: p.EndSeq,
						Msg: fmt.Sprintf("pass %d of %s %s reported %q and scheduled no retry", p.ID, p.Ctrl, p.Key, c.Message)})
					return
				}
			}
		}
	}
	strategy, tc := strategyOf(p), targetCluster(p)
	rev := ownerRevision(p, owner)
	previous := observedPrevious(p, owner)
	clean := !p.Faulted && !p.Crashed && p.Panic == ""
	sawRefusable := false
	var refusedKey store.Key
	for _, so := range rolloutObjects(w, p, owner) {
		k := w.normKey(tc, so.Key)
		// every non-dry-run write on K is judged against what the pass last observed before it
		var applyReq *Req
		for _, r := range p.Reqs {
			if r.Cluster != tc || r.Key() != k || !r.IsWrite() || r.DryRun {
				continue
			}
			obs, seen := p.LastSeen(tc, k, r.Seq)
			if !seen || obs == nil {
				continue // creation
			}
			if IsControlledBy(obs, owner, strategy) {
				continue
			}
			if rev == 0 {
				continue // revision could not be established from what the pass read
			}
			m.touch()
			ok, why := adoptionPermitted(nil, obs, owner, rev, previous, so.Collision, strategy, w.Cfg.ForceAdoption)
			if !ok {
				w.Report(Violation{Property: "C01", Rule: "unasked-write", Sig: shortSite(r.Site) + "/" + r.Verb, Seq: r.Seq,
					Msg: fmt.Sprintf("pass %d of %s %s (revision %d, %s) issued %s on %s which it observed as not controlled by it and not adoptable (%s; collisionProtection=%s; observed owners=%v rev=%q)",
						p.ID, p.Ctrl, p.Key, rev, strategy, r.Verb, k, why, so.Collision, Owners(obs, strategy), store.Annotations(obs)[annRevision])})
				return
			}
			if r.Verb == "patch" && r.Patch == "apply" && applyReq == nil {
				applyReq = r
			}
		}
		// what did the pass decide on, if it looked at K at all
		obs, seen := p.LastSeen(tc, k, 0)
		first := p.Observations(tc, k, 0)
		if len(first) > 0 {
			obs = first[0]
			// the decision is taken on the first observation that found the object
			for _, o := range first {
				if o != nil {
					obs = o
					break
				}
			}
		}
		if !seen || obs == nil || IsControlledBy(obs, owner, strategy) || rev == 0 {
			continue
		}
		m.touch()
		ok, why := adoptionPermitted(nil, obs, owner, rev, previous, so.Collision, strategy, w.Cfg.ForceAdoption)
		objRev, parsable := RecordedRevision(obs)
		w.Stats.Probe("c01-decision/" + why)
		switch {
		case ok && clean:
			if applyReq == nil {
				w.Report(Violation{Property: "C01", Rule: "adoption-carried-out", Sig: "no-apply", Seq: p.EndSeq,
					Msg: fmt.Sprintf("pass %d of %s %s observed %s as adoptable (%s) but issued no apply for it", p.ID, p.Ctrl, p.Key, k, why)})
				return
			}
			if applyReq.Succeeded() && applyReq.After != nil {
				cs := Controllers(applyReq.After, strategy)
				r2, _ := RecordedRevision(applyReq.After)
				if len(cs) != 1 || !cs[0].Is(owner) || r2 != rev {
					w.Report(Violation{Property: "C01", Rule: "adoption-carried-out", Sig: "not-sole-controller", Seq: applyReq.Seq,
						Msg: fmt.Sprintf("pass %d of %s %s adopted %s (%s) but afterwards controllers=%v revision=%d (want sole controller %s, revision %d)", p.ID, p.Ctrl, p.Key, k, why, cs, r2, p.Key.Name, rev)})
					return
				}
			}
		case !ok && parsable && objRev <= rev:
			if !sawRefusable {
				sawRefusable = true
				refusedKey = k
			}
		}
	}
	if sawRefusable && clean {
		reported := false
		for _, r := range p.Reqs {
			if r.Verb == "update-status" && r.Name == p.Key.Name && r.GVK.Kind == p.Ctrl {
				if c := FindCond(r.Body, "Available"); c != nil && c.Status == "False" && c.Reason == "CollisionDetected" {
					reported = true
				}
			}
		}
		if !reported {
			w.Report(Violation{Property: "C01", Rule: "refusal-reported", Sig: "not-reported", Seq: p.EndSeq,
				Msg: fmt.Sprintf("pass %d of %s %s refused to adopt %s but did not report Available=False/CollisionDetected (pass error: %v)", p.ID, p.Ctrl, p.Key, refusedKey, p.Err)})
		}
	}
}

// OnQuiescent (after the plan's resync round): a refusal that is still standing when everything has settled
// and every ObjectSet was reconciled once more on a caught-up cache must be justified by the
// state of the cluster itself, not only by PKO's bookkeeping (status.remotePhases of the previous
// revision): "a permitted adoption is always carried out".
func (m *MonC01) OnQuiescent(w *World, epoch int) {
	if !w.resynced {
		return // only after a resync round at quiescence: every refusal standing now was re-decided on a caught-up cache
	}
	for _, k := range sortedKeys(w.Mgmt.Objs) {
		if k.Group != PKOGroup || !isObjectSetKind(k.Kind) {
			continue
		}
		set := w.Mgmt.Objs[k]
		if isTeardownOwner(set) || isSpecPaused(set) {
			continue
		}
		c := FindCond(set, "Available")
		if c == nil || c.Status != "False" || c.Reason != "CollisionDetected" {
			continue
		}
		rev := store.Int(set, "status", "revision")
		if rev == 0 {
			continue
		}
		// the refusal must be the verdict of the set's last pass (a condition left over from an
		// earlier pass while later passes fail on something else says nothing)
		var last *Pass
		for _, q := range w.Passes {
			if q.Done && q.Ctrl == k.Kind && q.Key.Name == k.Name && q.Key.Namespace == k.Namespace {
				last = q
			}
		}
		fresh := false
		if last != nil && last.Err == nil && !last.Faulted && !last.Crashed {
			for _, rq := range last.Reqs {
				if rq.Verb == "update-status" && rq.Succeeded() {
					if lc := FindCond(rq.Body, "Available"); lc != nil && lc.Reason == "CollisionDetected" && lc.Message == c.Message {
						fresh = true
					}
				}
			}
		}
		if !fresh {
			continue
		}
		var previous []store.Obj
		prev, _ := store.Get(set, "spec", "previous").([]any)
		for _, px := range prev {
			pm, _ := px.(map[string]any)
			name, _ := pm["name"].(string)
			previous = append(previous, w.Mgmt.Objs[store.Key{Group: PKOGroup, Kind: k.Kind, Namespace: k.Namespace, Name: name}])
		}
		for _, so := range SpecObjects(set, w.sliceLookup(set)) {
			if so.Class == "hosted-cluster" {
				continue
			}
			ok := w.normKey("mgmt", so.Key)
			obj, exists := w.Mgmt.Objs[ok]
			// the condition names the refused object as "object <ns>/<name> kind:<Kind>:"
			if !exists || !strings.Contains(c.Message, "/"+ok.Name+" kind:"+ok.Kind+":") {
				continue
			}
			ctrlBySetOrItsPhase := IsControlledBy(obj, set, "native")
			if po, has := w.Mgmt.Objs[phaseObjectKey(set, so.PhaseName)]; has && IsControlledBy(obj, po, "native") {
				ctrlBySetOrItsPhase = true
			}
			if ctrlBySetOrItsPhase {
				continue
			}
			m.touch()
			if permitted, why := adoptionPermitted(w, obj, set, rev, previous, so.Collision, "native", w.Cfg.ForceAdoption); permitted {
				w.Report(Violation{Property: "C01", Rule: "refusal-permanent", Sig: why, Msg: fmt.Sprintf("at quiescence %s still reports %q for %s although the object is adoptable (%s): owners %v, recorded revision %q, own revision %d", k, c.Message, ok, why, Owners(obj, "native"), store.Annotations(obj)[annRevision], rev)})
				return
			}
		}
	}
}
