package cs

// Independent reference models, written from the property statements. Nothing
// here calls Package Operator code.

import (
	"encoding/json"
	"reflect"
	"strconv"
	"strings"

	"package-operator.run/internal/packages/verifsim/store"
)

const (
	annRevision = "package-operator.run/revision"
	annOwners   = "package-operator.run/owners"
	lblCache    = "package-operator.run/cache"
	lblPackage  = "package-operator.run/package"
	finCached   = "package-operator.run/cached"
)

// OwnerRef is a strategy-independent owner entry.
type OwnerRef struct {
	Group, Kind, Name, UID string
	Controller             bool
}

func (o OwnerRef) Is(owner store.Obj) bool {
	g := store.GVKOf(owner)
	return o.Group == g.Group && o.Kind == g.Kind && o.Name == store.Str(owner, "metadata", "name") &&
		o.UID == store.Str(owner, "metadata", "uid")
}

func groupOf(apiVersion string) string {
	if i := strings.Index(apiVersion, "/"); i >= 0 {
		return apiVersion[:i]
	}
	return ""
}

// Owners returns the owner list of obj under the given strategy
// ("native": metadata.ownerReferences; "annotation": package-operator.run/owners).
func Owners(obj store.Obj, strategy string) []OwnerRef {
	var out []OwnerRef
	if obj == nil {
		return nil
	}
	if strategy == "annotation" {
		raw := store.Annotations(obj)[annOwners]
		if raw == "" {
			return nil
		}
		var l []map[string]any
		if err := json.Unmarshal([]byte(raw), &l); err != nil {
			return nil
		}
		for _, m := range l {
			r := OwnerRef{}
			av, _ := m["apiVersion"].(string)
			r.Group = groupOf(av)
			r.Kind, _ = m["kind"].(string)
			r.Name, _ = m["name"].(string)
			r.UID, _ = m["uid"].(string)
			r.Controller, _ = m["controller"].(bool)
			out = append(out, r)
		}
		return out
	}
	l, _ := store.Get(obj, "metadata", "ownerReferences").([]any)
	for _, x := range l {
		m, ok := x.(map[string]any)
		if !ok {
			continue
		}
		r := OwnerRef{}
		av, _ := m["apiVersion"].(string)
		r.Group = groupOf(av)
		r.Kind, _ = m["kind"].(string)
		r.Name, _ = m["name"].(string)
		r.UID, _ = m["uid"].(string)
		r.Controller, _ = m["controller"].(bool)
		out = append(out, r)
	}
	return out
}

func Controllers(obj store.Obj, strategy string) []OwnerRef {
	var out []OwnerRef
	for _, o := range Owners(obj, strategy) {
		if o.Controller {
			out = append(out, o)
		}
	}
	return out
}

func IsControlledBy(obj, owner store.Obj, strategy string) bool {
	if obj == nil || owner == nil {
		return false
	}
	for _, o := range Controllers(obj, strategy) {
		if o.Is(owner) {
			return true
		}
	}
	return false
}

func IsOwnedBy(obj, owner store.Obj, strategy string) bool {
	if obj == nil || owner == nil {
		return false
	}
	for _, o := range Owners(obj, strategy) {
		if o.Is(owner) {
			return true
		}
	}
	return false
}

// RecordedRevision parses the revision annotation; ok=false if unparsable.
func RecordedRevision(obj store.Obj) (int64, bool) {
	s := store.Annotations(obj)[annRevision]
	if s == "" {
		return 0, true
	}
	v, err := strconv.ParseInt(s, 10, 64)
	if err != nil {
		return 0, false
	}
	return v, true
}

// ---- conditions -------------------------------------------------------------------

type Cond struct {
	Type, Status, Reason, Message string
	ObservedGeneration            int64
}

func Conditions(o store.Obj) []Cond {
	l, _ := store.Get(o, "status", "conditions").([]any)
	var out []Cond
	for _, x := range l {
		m, ok := x.(map[string]any)
		if !ok {
			continue
		}
		c := Cond{}
		c.Type, _ = m["type"].(string)
		c.Status, _ = m["status"].(string)
		c.Reason, _ = m["reason"].(string)
		c.Message, _ = m["message"].(string)
		c.ObservedGeneration = store.Int(m, "observedGeneration")
		out = append(out, c)
	}
	return out
}

func FindCond(o store.Obj, typ string) *Cond {
	for _, c := range Conditions(o) {
		if c.Type == typ {
			cc := c
			return &cc
		}
	}
	return nil
}

func CondTrue(o store.Obj, typ string) bool {
	c := FindCond(o, typ)
	return c != nil && c.Status == "True"
}

// ---- probes (reference evaluator, from the statement of C17/C03) --------------------

// celTable holds the CEL rules the generator uses with their reference semantics.
var celTable = map[string]func(o store.Obj) bool{
	`has(self.status) && has(self.status.phase) && self.status.phase == "Running"`: func(o store.Obj) bool {
		return store.Str(o, "status", "phase") == "Running"
	},
	`self.metadata.name.startsWith("w-")`: func(o store.Obj) bool {
		return strings.HasPrefix(store.Str(o, "metadata", "name"), "w-")
	},
}

func labelSelectorMatches(sel any, lbls map[string]string) bool {
	m, _ := sel.(map[string]any)
	ml, _ := m["matchLabels"].(map[string]any)
	for k, v := range ml {
		if s, _ := v.(string); lbls[k] != s {
			return false
		}
	}
	return true
}

func fieldAt(o store.Obj, path string) (any, bool) {
	parts := strings.Split(strings.Trim(path, "."), ".")
	var cur any = o
	for _, p := range parts {
		m, ok := cur.(map[string]any)
		if !ok {
			return nil, false
		}
		cur, ok = m[p]
		if !ok {
			return nil, false
		}
	}
	return cur, true
}

func numEq(a, b any) bool {
	af, aok := toF(a)
	bf, bok := toF(b)
	if aok && bok {
		return af == bf
	}
	return reflect.DeepEqual(a, b)
}

func toF(v any) (float64, bool) {
	switch x := v.(type) {
	case int64:
		return float64(x), true
	case float64:
		return x, true
	case int:
		return float64(x), true
	}
	return 0, false
}

// RefProbe evaluates spec.availabilityProbes (JSON form) on an object.
func RefProbe(probes []any, obj store.Obj) bool {
	gvk := store.GVKOf(obj)
	gen := store.Int(obj, "metadata", "generation")
	lbls := store.Labels(obj)
	for _, px := range probes {
		p, _ := px.(map[string]any)
		sel, _ := p["selector"].(map[string]any)
		if k, ok := sel["kind"].(map[string]any); ok && k != nil {
			g, _ := k["group"].(string)
			kd, _ := k["kind"].(string)
			if g != gvk.Group || kd != gvk.Kind {
				continue
			}
		}
		if s, ok := sel["selector"]; ok && s != nil {
			if !labelSelectorMatches(s, lbls) {
				continue
			}
		}
		// selected: an outdated status never passes
		if og, ok := store.Get(obj, "status", "observedGeneration").(int64); ok && og != gen {
			return false
		}
		if og, ok := store.Get(obj, "status", "observedGeneration").(float64); ok && int64(og) != gen {
			return false
		}
		pl, _ := p["probes"].([]any)
		for _, qx := range pl {
			q, _ := qx.(map[string]any)
			if c, ok := q["condition"].(map[string]any); ok {
				typ, _ := c["type"].(string)
				st, _ := c["status"].(string)
				found := false
				conds, _ := store.Get(obj, "status", "conditions").([]any)
				for _, cx := range conds {
					cm, ok := cx.(map[string]any)
					if !ok {
						return false
					}
					if t, _ := cm["type"].(string); t != typ {
						continue
					}
					found = true
					if v, has := cm["observedGeneration"]; has {
						if f, ok := toF(v); ok && int64(f) != gen {
							return false
						}
					}
					if s, _ := cm["status"].(string); s != st {
						return false
					}
					break
				}
				if !found {
					return false
				}
			} else if f, ok := q["fieldsEqual"].(map[string]any); ok {
				a, _ := f["fieldA"].(string)
				b, _ := f["fieldB"].(string)
				av, aok := fieldAt(obj, a)
				bv, bok := fieldAt(obj, b)
				if !aok || !bok || !numEq(av, bv) {
					return false
				}
			} else if c, ok := q["cel"].(map[string]any); ok {
				rule, _ := c["rule"].(string)
				fn := celTable[rule]
				if fn == nil {
					panic("reference evaluator: unknown CEL rule " + rule)
				}
				if !fn(obj) {
					return false
				}
			}
		}
	}
	return true
}

// ---- ObjectSet structure helpers ---------------------------------------------------

// SpecObject is one object listed in a phase.
type SpecObject struct {
	Phase     int
	PhaseName string
	Class     string
	Index     int
	GVK       string
	Key       store.Key // namespace defaulted to the owner's
	Obj       store.Obj
	Collision string
	FromSlice string
}

func isClusterScopedOwner(kind string) bool { return strings.HasPrefix(kind, "Cluster") }

// PhasesOf returns spec phases of an ObjectSet (inline objects only).
func PhasesOf(os store.Obj) []any {
	l, _ := store.Get(os, "spec", "phases").([]any)
	return l
}

// SpecObjects lists the objects of an ObjectSet or ObjectSetPhase, resolving
// ObjectSlices through lookup (may be nil).
func SpecObjects(owner store.Obj, sliceLookup func(name string) store.Obj) []SpecObject {
	var out []SpecObject
	ns := store.Str(owner, "metadata", "namespace")
	kind := store.Str(owner, "kind")
	add := func(pi int, pname, class string, objs []any, from string) {
		for i, ox := range objs {
			om, _ := ox.(map[string]any)
			o, _ := om["object"].(map[string]any)
			if o == nil {
				continue
			}
			k := store.KeyOf(o)
			if k.Namespace == "" {
				k.Namespace = ns
			}
			cp, _ := om["collisionProtection"].(string)
			if cp == "" {
				cp = "Prevent"
			}
			out = append(out, SpecObject{Phase: pi, PhaseName: pname, Class: class, Index: i, GVK: store.GVKOf(o).String(), Key: k, Obj: o, Collision: cp, FromSlice: from})
		}
	}
	if strings.HasSuffix(kind, "ObjectSetPhase") {
		objs, _ := store.Get(owner, "spec", "objects").([]any)
		add(0, "", "", objs, "")
		return out
	}
	for pi, px := range PhasesOf(owner) {
		p, _ := px.(map[string]any)
		pname, _ := p["name"].(string)
		class, _ := p["class"].(string)
		objs, _ := p["objects"].([]any)
		add(pi, pname, class, objs, "")
		sl, _ := p["slices"].([]any)
		for _, sx := range sl {
			sn, _ := sx.(string)
			if sliceLookup == nil {
				continue
			}
			if s := sliceLookup(sn); s != nil {
				so, _ := s["objects"].([]any)
				add(pi, pname, class, so, sn)
			}
		}
	}
	return out
}

// clusterScopedKey normalises a key for a cluster-scoped kind.
func (w *World) normKey(cluster string, k store.Key) store.Key {
	if ki, err := w.Cluster(cluster).Kind(k.GK()); err == nil && !ki.Namespaced {
		k.Namespace = ""
	}
	return k
}
