// Package choice is the single source of nondeterminism of the simulator.
//
// Every decision (scenario generation, scheduling, faults, third-party
// arguments, knobs) is an Intn/Weighted draw from a Seq. In generate mode a
// draw comes from a PCG stream seeded from (seed, stream name) and is recorded;
// in replay mode the recorded value is returned (mod n) and 0 once the
// recording is exhausted. 0 is always the "boring" choice, so shrinking
// towards zeros and shorter sequences simplifies a run.
package choice

import (
	"hash/fnv"
	"math/rand/v2"
)

// Seq is one stream of choices.
type Seq struct {
	rng     *rand.Rand
	replay  []uint32
	pos     int
	Rec     []uint32
	Labels  []string // parallel to Rec, only kept when KeepLabels
	keepLbl bool
	replayM bool
}

func hash64(seed uint64, name string) (uint64, uint64) {
	h := fnv.New64a()
	var b [8]byte
	for i := 0; i < 8; i++ {
		b[i] = byte(seed >> (8 * i))
	}
	h.Write(b[:])
	h.Write([]byte(name))
	a := h.Sum64()
	h.Write([]byte("/2"))
	return a, h.Sum64()
}

// NewGen returns a generating stream.
func NewGen(seed uint64, name string) *Seq {
	a, b := hash64(seed, name)
	return &Seq{rng: rand.New(rand.NewPCG(a, b))}
}

// NewReplay returns a replaying stream.
func NewReplay(rec []uint32) *Seq {
	return &Seq{replay: rec, replayM: true}
}

// KeepLabels makes the stream remember the label of every draw (for traces).
func (s *Seq) KeepLabels() { s.keepLbl = true }

// Intn returns a value in [0,n). n<=1 returns 0 without consuming a choice.
func (s *Seq) Intn(n int, label string) int {
	if n <= 1 {
		return 0
	}
	var v uint32
	if s.replayM {
		if s.pos < len(s.replay) {
			v = s.replay[s.pos] % uint32(n)
		}
		s.pos++
	} else {
		v = uint32(s.rng.IntN(n))
	}
	s.Rec = append(s.Rec, v)
	if s.keepLbl {
		s.Labels = append(s.Labels, label)
	}
	return int(v)
}

// Bool draws a boolean; false is the boring value.
func (s *Seq) Bool(label string) bool { return s.Intn(2, label) == 1 }

// Chance returns true with probability num/den; false is boring.
func (s *Seq) Chance(num, den int, label string) bool {
	if num <= 0 {
		return false
	}
	return s.Intn(den, label) >= den-num
}

// Weighted picks an index with the given weights; index 0 is reached by value 0.
func (s *Seq) Weighted(w []int, label string) int {
	total := 0
	for _, x := range w {
		total += x
	}
	if total <= 0 {
		return 0
	}
	v := s.Intn(total, label)
	for i, x := range w {
		if v < x {
			return i
		}
		v -= x
	}
	return len(w) - 1
}

// Pos is the number of choices consumed.
func (s *Seq) Pos() int { return len(s.Rec) }
