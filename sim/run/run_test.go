package run

import (
	"fmt"
	"os"
	"strconv"
	"testing"

	"package-operator.run/internal/packages/verifsim/cs"
)

func envInt(name string, def int) int {
	if v := os.Getenv(name); v != "" {
		n, err := strconv.Atoi(v)
		if err == nil {
			return n
		}
	}
	return def
}

func TestSmoke(t *testing.T) {
	prop := os.Getenv("VERIF_PROP")
	if prop == "" {
		t.Skip("VERIF_PROP not set")
	}
	n := envInt("VERIF_RUNS", 20)
	seed := uint64(envInt("VERIF_SEED", 1))
	first := envInt("VERIF_FIRST", 0)
	for i := first; i < first+n; i++ {
		res := dispatchRun(t, cs.RunSpec{Property: prop, Seed: seed, Index: i, Trace: os.Getenv("VERIF_TRACE") != ""})
		fmt.Printf("run %d: steps=%d reqs=%d passes=%d sim=%.0fs viol=%d incid=%d exercised=%v inconcl=%v mach=%q faults=%v hash=%x il=%x states=%d\n",
			i, res.Steps, res.Requests, res.Passes, res.SimSeconds, len(res.Viol), len(res.Incidental), res.Exercised, res.Inconcl, res.Machinery, res.Faults, res.Hash, res.ILSig, len(res.States))
		if os.Getenv("VERIF_TRACE") != "" {
			for _, d := range res.Desc {
				fmt.Println("  DESC", d)
			}
			for _, l := range res.Trace {
				fmt.Println("  ", l)
			}
		}
		for _, v := range res.Viol {
			fmt.Printf("  VIOL %s/%s sig=%s: %s\n", v.Property, v.Rule, v.Sig, v.Msg)
		}
	}
}
