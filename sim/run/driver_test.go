package run

import (
	"bufio"
	"encoding/json"
	"fmt"
	"io"
	"math"
	"os"
	"os/exec"
	"path/filepath"
	"regexp"
	"runtime/debug"
	"sort"
	"strconv"
	"strings"
	"sync"
	"sync/atomic"
	"syscall"
	"testing"
	"time"

	"package-operator.run/internal/packages/verifsim/cs"
	"package-operator.run/internal/packages/verifsim/e2"
)

// ---- environment ---------------------------------------------------------------

func env(name, def string) string {
	if v := os.Getenv(name); v != "" {
		return v
	}
	return def
}

func verifDir() string { return env("VERIF_DIR", "/verif") }
func workDir(prop string) string {
	return filepath.Join(verifDir(), ".build", "work", prop)
}

type tierCfg struct {
	WallS   int
	MaxRuns int
	Workers int
}

// quickRuns is the size of the quick tier: a fixed number of run indexes per property
// (0..N-1, see dealer), so that what a quick run explores - and the
// evidence it writes - is a function of VERIF_SEED and the code, not of the speed or load of the
// machine it runs on. The numbers are what 16 workers finish in about 50 s on the
// reference sandbox; the wall-clock limit of the quick tier is only a safety net (a batch it
// cuts short says so in its evidence: coverage.wall_limit_hit).
var quickRuns = map[string]int{
	"C01": 3000, "C02": 12000, "C03": 16500, "C04": 13000, "C05": 12500, "C06": 10500,
	"C07": 14000, "C08": 11000, "C09": 10000, "C10": 2500, "C11": 20000, "C12": 350000,
	"C14": 4300, "C15": 3700, "C16": 8800, "C18": 58000, "C19": 8500, "C20": 440000,
}

const quickWallLimitS = 240

// quickSweepBases: in the quick tier of C10 the first quickSweepBases run indexes with
// index%6 == 3 are bases of a single-fault sweep (complete when the base run is short enough,
// otherwise over the requests of its teardown passes); in the thorough tier every such index is.
const quickSweepBases = 12
const quickPartialTargets = 16

func tierOf(prop, tier string) tierCfg {
	c := tierCfg{WallS: 900, MaxRuns: 1 << 30, Workers: 16}
	if _, e2 := otherEngines[prop]; e2 {
		// E2 runs are tiny (tens of scheduler steps): cap the batch so that the worker logs stay manageable
		c.MaxRuns = 3_000_000
	}
	if tier != "thorough" {
		c.WallS = 55
		if n, ok := quickRuns[prop]; ok && envInt("VERIF_WALL_S", 0) == 0 {
			c.WallS, c.MaxRuns = quickWallLimitS, n
		}
	}
	if v := envInt("VERIF_WALL_S", 0); v > 0 {
		// explicit wall-clock budget (tools/mutant-run.sh, tools/eval-mutants.sh): as many runs as fit
		c.WallS = v
	}
	if v := envInt("VERIF_MAX_RUNS", 0); v > 0 {
		c.MaxRuns = v
	}
	if v := envInt("VERIF_WORKERS", 0); v > 0 {
		c.Workers = v
	}
	return c
}

func budgetText(prop, tier string, tc tierCfg) string {
	sweeps := ""
	if prop == "C10" && tier != "thorough" {
		sweeps = fmt.Sprintf("; plus single-fault sweeps over the first %d sweep bases (indexes with index%%6 == 3), partial sweeps over at most %d teardown requests", quickSweepBases, quickPartialTargets)
	} else if prop == "C10" {
		sweeps = "; every index with index%6 == 3 is the base of a single-fault sweep"
	}
	if tc.MaxRuns < 1<<30 && tc.MaxRuns != 3_000_000 {
		return fmt.Sprintf("fixed: run indexes 0..%d of the seed, executed by %d worker processes (wall-clock safety limit %d s; sum_workers_stopped_by_wall_clock is present only if it cut the batch short)%s", tc.MaxRuns-1, tc.Workers, tc.WallS, sweeps)
	}
	return fmt.Sprintf("wall clock: %d worker processes take the run indexes of the seed in increasing order for %d s%s", tc.Workers, tc.WallS, sweeps)
}

// ---- worker --------------------------------------------------------------------

// compact drops bulky fields before a result is written to the worker log.
func compact(r cs.RunResult, keepChoices bool) cs.RunResult {
	r.Trace = nil
	if !keepChoices {
		r.Sch, r.Scn = nil, nil
	}
	return r
}

func faultFreeIndex(i int) bool { return i%5 == 0 }

// dealer hands run indexes 0..maxRuns-1 to the worker processes of a batch. The set of indexes a
// batch executes is fixed; which process executes an index is not: workers draw the next chunk
// from a counter file under flock, so that a worker that met long runs does not hold the batch up
// and the indexes of a worker that died are still executed. Everything the driver derives from the
// worker logs is independent of who ran what (agg.add and the sorts before reporting are keyed by
// run index), and what a worker does with an index depends on the index alone.
func dealer(prop string, wi, wn, maxRuns int) func() int {
	chunk := 4
	if _, e2 := otherEngines[prop]; e2 {
		chunk = 1000
	}
	path := filepath.Join(workDir(prop), "next-index")
	cur, end := 0, 0
	return func() int {
		if cur < end {
			cur++
			return cur - 1
		}
		f, err := os.OpenFile(path, os.O_RDWR|os.O_CREATE, 0o644)
		if err != nil {
			fmt.Fprintln(os.Stderr, "MACHINERY: run index counter:", err)
			os.Exit(2)
		}
		defer f.Close()
		if err := syscall.Flock(int(f.Fd()), syscall.LOCK_EX); err != nil {
			fmt.Fprintln(os.Stderr, "MACHINERY: run index counter:", err)
			os.Exit(2)
		}
		b, _ := io.ReadAll(f)
		n, _ := strconv.Atoi(strings.TrimSpace(string(b)))
		if n >= maxRuns {
			return -1
		}
		cur, end = n, min(n+chunk, maxRuns)
		if _, err := f.WriteAt([]byte(fmt.Sprintf("%-12d", end)), 0); err != nil {
			fmt.Fprintln(os.Stderr, "MACHINERY: run index counter:", err)
			os.Exit(2)
		}
		cur++
		return cur - 1
	}
}

func TestWorker(t *testing.T) {
	prop := os.Getenv("VERIF_PROP")
	if prop == "" || os.Getenv("VERIF_ROLE") != "worker" {
		t.Skip()
	}
	seed := uint64(envInt("VERIF_SEED", 1))
	wi, wn := envInt("VERIF_WORKER", 0), envInt("VERIF_NWORKERS", 1)
	wall := time.Duration(envInt("VERIF_WALL_S", 30)) * time.Second
	maxRuns := envInt("VERIF_MAX_RUNS", 1<<30)
	out, err := os.Create(filepath.Join(workDir(prop), fmt.Sprintf("worker-%d.jsonl", wi)))
	if err != nil {
		t.Fatal(err)
	}
	defer out.Close()
	bw := bufio.NewWriter(out)
	defer bw.Flush()
	enc := json.NewEncoder(bw)
	start := time.Now()
	n := 0
	debug.SetMaxStack(256 << 20) // unbounded recursion dies quickly instead of eating 1 GB first
	startWatchdog()
	next := dealer(prop, wi, wn, maxRuns)
	for idx := next(); idx >= 0; idx = next() {
		if time.Since(start) > wall {
			stopped := cs.RunResult{Extra: map[string]any{"workers_stopped_by_wall_clock": float64(1)}}
			stopped.Spec.Mode = "sweep-summary"
			_ = enc.Encode(stopped)
			break
		}
		spec := cs.RunSpec{Property: prop, Seed: seed, Index: idx, FaultFree: faultFreeIndex(idx)}
		if prop == "C10" && idx%6 == 3 && (os.Getenv("VERIF_TIER") == "thorough" || idx < 6*quickSweepBases) {
			// complete single-fault sweep over the requests of a fault-free base run
			base := spec
			base.Mode, base.FaultFree = "sweep-base", true
			fmt.Fprintf(bw, "{\"begin\":%d}\n", idx)
			bw.Flush()
			br := dispatchRun(t, base)
			_ = enc.Encode(compact(br, len(br.Viol) > 0 || br.Machinery != ""))
			nreq := 0
			if f, ok := br.Extra["sweep_requests"].(float64); ok {
				nreq = int(f)
			}
			maxReq := 400
			if os.Getenv("VERIF_TIER") != "thorough" {
				maxReq = 90
			}
			aborted := false
			// which requests to fault: all of them, or - quick tier, base too long for a complete
			// sweep - those issued by passes of an owner being torn down (deletion, archival)
			var targets []int
			partial := false
			if nreq > 0 && nreq <= maxReq {
				for i := 0; i < nreq; i++ {
					targets = append(targets, i)
				}
			} else if l, ok := br.Extra["sweep_teardown_idx"].([]any); ok && os.Getenv("VERIF_TIER") != "thorough" {
				partial = true
				// at most quickPartialTargets of them, evenly spaced: one sweep runs on one worker and
				// must not outlast the rest of the batch (its size is fixed, not cut off by the clock)
				var all []int
				for _, x := range l {
					if f, ok := x.(float64); ok {
						all = append(all, int(f))
					}
				}
				for i := 0; i < len(all) && i < quickPartialTargets; i++ {
					if len(all) <= quickPartialTargets {
						targets = append(targets, all[i])
					} else {
						targets = append(targets, all[i*len(all)/quickPartialTargets])
					}
				}
			}
			{
				seen := cs.RunResult{Spec: base, Extra: map[string]any{"sweep_bases_seen": float64(1)}}
				seen.Spec.Mode = "sweep-summary"
				if nreq > maxReq {
					seen.Extra["sweep_bases_longer_than_complete_limit"] = float64(1)
				}
				if _, td := br.Extra["sweep_has_teardown"]; td {
					seen.Extra["sweep_bases_with_teardown"] = float64(1)
				}
				if br.Inconcl || br.Machinery != "" {
					seen.Extra["sweep_bases_unusable"] = float64(1)
				}
				_ = enc.Encode(seen)
			}
			if len(targets) > 0 && br.Machinery == "" && !br.Inconcl {
				for _, i := range targets {
					if aborted {
						break
					}
					if time.Since(start) > 2*wall {
						aborted = true
					}
					for _, kind := range []string{"err-before", "lost-response", "crash-before", "crash-after"} {
						sp := base
						sp.Mode, sp.SweepAt, sp.SweepKind = "sweep", i, kind
						r := dispatchRun(t, sp)
						if r.Extra == nil {
							r.Extra = map[string]any{}
						}
						r.Extra["sweep_runs"] = float64(1)
						_ = enc.Encode(compact(r, len(r.Viol) > 0 || r.Machinery != ""))
					}
				}
				if !aborted && partial {
					done := cs.RunResult{Spec: base, Extra: map[string]any{"sweep_partial_bases_completed": float64(1), "sweep_partial_requests": float64(len(targets))}}
					done.Spec.Mode = "sweep-summary"
					_ = enc.Encode(done)
				}
				if !aborted && !partial {
					done := cs.RunResult{Spec: base, Extra: map[string]any{"sweep_bases_completed": float64(1), "sweep_base_requests": float64(nreq)}}
					done.Spec.Mode = "sweep-summary"
					_ = enc.Encode(done)
				}
			}
			bw.Flush()
			n++
			continue
		}
		// progress marker so that a run that kills the process can be replayed
		fmt.Fprintf(bw, "{\"begin\":%d}\n", idx)
		bw.Flush()
		watchRun(idx)
		res := dispatchRun(t, spec)
		watchRun(-1)
		n++
		if idx%25 == 7 && res.Machinery == "" {
			// continuous determinism guard
			again := dispatchRun(t, spec)
			if again.Hash != res.Hash {
				res.Machinery = fmt.Sprintf("determinism self-check failed for index %d: %x vs %x", idx, res.Hash, again.Hash)
			}
		}
		_ = enc.Encode(compact(res, len(res.Viol) > 0 || res.Machinery != ""))
		bw.Flush()
	}
}

// ---- runs that kill or hang the process -------------------------------------------
//
// A run in which package-operator code recurses without bound ends the process
// (Go's stack overflow is fatal, not a panic) or never returns. Workers mark
// the run they are in; a real-time watchdog outside the bubble ends a process
// whose run exceeds the limit. The driver re-runs such an index alone in a child
// process (TestProbe) and classifies the outcome.

var watchedRun, watchedSince atomic.Int64

func watchRun(idx int) {
	watchedSince.Store(time.Now().UnixNano())
	watchedRun.Store(int64(idx))
}

func runLimit() time.Duration { return time.Duration(envInt("VERIF_RUN_LIMIT_S", 60)) * time.Second }

func startWatchdog() {
	watchedRun.Store(-1)
	go func() {
		for {
			time.Sleep(time.Second)
			if idx := watchedRun.Load(); idx >= 0 && time.Since(time.Unix(0, watchedSince.Load())) > runLimit() {
				fmt.Fprintf(os.Stderr, "VERIF-WATCHDOG: run index %d did not finish within %v\n", idx, runLimit())
				os.Exit(3)
			}
		}
	}()
}

// TestProbe runs one spec in generate mode and exits 0 if it returns.
func TestProbe(t *testing.T) {
	js := os.Getenv("VERIF_PROBE_SPEC")
	if js == "" || os.Getenv("VERIF_ROLE") != "probe" {
		t.Skip()
	}
	var spec cs.RunSpec
	if err := json.Unmarshal([]byte(js), &spec); err != nil {
		fmt.Println("MACHINERY: bad probe spec:", err)
		os.Exit(2)
	}
	debug.SetMaxStack(256 << 20)
	startWatchdog()
	watchRun(spec.Index)
	res := dispatchRun(t, spec)
	watchRun(-1)
	fmt.Printf("PROBE-RETURNED violations=%d machinery=%q\n", len(res.Viol), res.Machinery)
}

var pkoFrame = regexp.MustCompile(`(?m)^(package-operator\.run/[^\s(]+(?:\([^)]*\))?[^\s(]*)\(`)

// probeFatal re-runs spec alone in a child process. symptom is "" when the run returns.
func probeFatal(spec cs.RunSpec) (symptom, frame, out string) {
	js, _ := json.Marshal(spec)
	cmd := exec.Command(os.Args[0], "-test.run", "^TestProbe$", "-test.timeout", "30m", "-test.cpu", "1")
	cmd.Env = append(os.Environ(), "VERIF_ROLE=probe", "VERIF_PROBE_SPEC="+string(js), "GOMAXPROCS=2")
	b, _ := cmd.CombinedOutput()
	out = string(b)
	switch {
	case strings.Contains(out, "PROBE-RETURNED"):
		return "", "", out
	case strings.Contains(out, "stack overflow") || strings.Contains(out, "goroutine stack exceeds"):
		symptom = "stack-overflow"
	case strings.Contains(out, "VERIF-WATCHDOG"):
		symptom = "hang"
	default:
		return "died", "", out
	}
	for _, m := range pkoFrame.FindAllStringSubmatch(out, -1) {
		if !strings.Contains(m[1], "verifsim") && !strings.Contains(m[1], "zzverif") {
			frame = m[1]
			if i := strings.LastIndex(frame, "/"); i >= 0 {
				frame = frame[i+1:]
			}
			break
		}
	}
	return symptom, frame, out
}

// ---- known findings ------------------------------------------------------------

type finding struct {
	Kind     string `json:"kind"` // known | fixed
	Property string `json:"property"`
	Rule     string `json:"rule"`
	Sig      string `json:"signature"`
	What     string `json:"what"`
	Commit   string `json:"commit,omitempty"`
}

func loadFindings() []finding {
	f, err := os.Open(filepath.Join(verifDir(), "known-findings.jsonl"))
	if err != nil {
		return nil
	}
	defer f.Close()
	var out []finding
	sc := bufio.NewScanner(f)
	sc.Buffer(make([]byte, 1<<20), 1<<20)
	for sc.Scan() {
		line := strings.TrimSpace(sc.Text())
		if line == "" || strings.HasPrefix(line, "#") {
			continue
		}
		var x finding
		if json.Unmarshal([]byte(line), &x) == nil {
			out = append(out, x)
		}
	}
	return out
}

func init() {
	for _, f := range loadFindings() {
		if f.Kind == "known" {
			cs.KnownSigs[f.Property+"/"+f.Rule+"/"+f.Sig] = true
		}
	}
}

func knownMatch(fs []finding, v cs.Violation) *finding {
	for i := range fs {
		f := &fs[i]
		if f.Kind == "known" && f.Property == v.Property && f.Rule == v.Rule && f.Sig == v.Sig {
			return f
		}
	}
	return nil
}

// ---- replay files --------------------------------------------------------------

type replayFile struct {
	Property string       `json:"property"`
	Rule     string       `json:"rule"`
	Sig      string       `json:"signature"`
	Msg      string       `json:"message"`
	Engine   string       `json:"engine"`
	Spec     cs.RunSpec   `json:"spec"`
	Hash     uint64       `json:"event_log_hash"`
	Desc     []string     `json:"scenario,omitempty"`
	Trace    []string     `json:"trace,omitempty"`
	Shrink   shrinkReport `json:"minimisation"`
	// Fatal is set when the run ends or hangs the process ("stack-overflow", "hang"): it is then
	// re-generated from (seed, index) in a child process instead of replayed from a choice sequence.
	Fatal string `json:"fatal,omitempty"`
}

type shrinkReport struct {
	Replays     int `json:"replays"`
	SchBefore   int `json:"sch_before"`
	SchAfter    int `json:"sch_after"`
	ScnBefore   int `json:"scn_before"`
	ScnAfter    int `json:"scn_after"`
	NonZeroSch  int `json:"nonzero_sch_after"`
	NonZeroScn  int `json:"nonzero_scn_after"`
	StepsBefore int `json:"steps_before"`
	StepsAfter  int `json:"steps_after"`
}

func hasViolation(res cs.RunResult, rule, sig string) bool {
	for _, v := range res.Viol {
		if v.Rule == rule && (sig == "" || v.Sig == sig) {
			return true
		}
	}
	return false
}

func nonZero(a []uint32) int {
	n := 0
	for _, x := range a {
		if x != 0 {
			n++
		}
	}
	return n
}

func trimZeros(a []uint32) []uint32 {
	for len(a) > 0 && a[len(a)-1] == 0 {
		a = a[:len(a)-1]
	}
	return a
}

// shrink minimises the choice sequences of a failing run (Hypothesis-style).
func shrink(t *testing.T, base cs.RunResult, rule, sig string, maxReplays int, deadline time.Time) (cs.RunResult, shrinkReport) {
	rep := shrinkReport{SchBefore: len(base.Sch), ScnBefore: len(base.Scn), StepsBefore: base.Steps}
	best := base
	try := func(sch, scn []uint32) bool {
		if rep.Replays >= maxReplays || time.Now().After(deadline) {
			return false
		}
		rep.Replays++
		spec := best.Spec
		spec.Replay = true
		spec.Sch, spec.Scn = sch, scn
		r := dispatchRun(t, spec)
		if r.Machinery == "" && hasViolation(r, rule, sig) {
			r.Spec.Sch, r.Spec.Scn = trimZeros(r.Sch), trimZeros(r.Scn)
			r.Sch, r.Scn = r.Spec.Sch, r.Spec.Scn
			best = r
			return true
		}
		return false
	}
	// normalise: replay the recorded sequences once
	if !try(base.Sch, base.Scn) {
		return base, rep
	}
	pass := func(which int) bool {
		improved := false
		get := func() []uint32 {
			if which == 0 {
				return best.Sch
			}
			return best.Scn
		}
		run := func(c []uint32) bool {
			if which == 0 {
				return try(c, best.Scn)
			}
			return try(best.Sch, c)
		}
		// 1. drop the tail
		for cut := len(get()) / 2; cut >= 1; cut /= 2 {
			for len(get()) > cut {
				if !run(append([]uint32{}, get()[:len(get())-cut]...)) {
					break
				}
				improved = true
			}
		}
		// 2. delete chunks
		for size := len(get()) / 2; size >= 1; size /= 2 {
			for i := 0; i+size <= len(get()); {
				cur := get()
				c := append(append([]uint32{}, cur[:i]...), cur[i+size:]...)
				if run(c) {
					improved = true
				} else {
					i += size
				}
			}
		}
		// 3. zero blocks, then single values
		for size := 8; size >= 1; size /= 2 {
			for i := 0; i < len(get()); i += size {
				cur := get()
				c := append([]uint32{}, cur...)
				changed := false
				for j := i; j < i+size && j < len(c); j++ {
					if c[j] != 0 {
						c[j] = 0
						changed = true
					}
				}
				if changed && run(c) {
					improved = true
				}
			}
		}
		// 4. lower values
		for i := 0; i < len(get()); i++ {
			for get()[i] > 0 {
				cur := get()
				c := append([]uint32{}, cur...)
				c[i] /= 2
				if !run(c) {
					break
				}
				improved = true
				if i >= len(get()) {
					break
				}
			}
		}
		return improved
	}
	for round := 0; round < 3; round++ {
		a := pass(0)
		b := pass(1)
		if !a && !b {
			break
		}
	}
	rep.SchAfter, rep.ScnAfter = len(best.Sch), len(best.Scn)
	rep.NonZeroSch, rep.NonZeroScn = nonZero(best.Sch), nonZero(best.Scn)
	rep.StepsAfter = best.Steps
	return best, rep
}

func writeReplay(prop string, v cs.Violation, res cs.RunResult, rep shrinkReport) (string, error) {
	spec := res.Spec
	spec.Replay = true
	spec.Sch, spec.Scn = res.Sch, res.Scn
	// re-run with trace to produce the human-readable schedule
	rf := replayFile{Property: prop, Rule: v.Rule, Sig: v.Sig, Msg: v.Msg, Engine: metaOf(prop).Engine, Spec: spec, Hash: res.Hash, Desc: res.Desc, Trace: res.Trace, Shrink: rep}
	dir := env("VERIF_REPLAY_DIR", filepath.Join(verifDir(), "replays"))
	_ = os.MkdirAll(dir, 0o755)
	name := fmt.Sprintf("%s-%s-%s-seed%d-run%d.json", prop, v.Rule, sanitize(v.Sig), spec.Seed, spec.Index)
	path := filepath.Join(dir, name)
	b, _ := json.MarshalIndent(rf, "", " ")
	return path, os.WriteFile(path, b, 0o644)
}

func sanitize(s string) string {
	out := []rune{}
	for _, r := range s {
		if (r >= 'a' && r <= 'z') || (r >= 'A' && r <= 'Z') || (r >= '0' && r <= '9') || r == '-' || r == '_' {
			out = append(out, r)
		} else {
			out = append(out, '_')
		}
	}
	if len(out) > 60 {
		out = out[:60]
	}
	return string(out)
}

// TestReplay replays one file; exit status 1 (test failure) iff the violation reproduces.
func TestReplay(t *testing.T) {
	path := os.Getenv("VERIF_REPLAY")
	if path == "" {
		t.Skip()
	}
	b, err := os.ReadFile(path)
	if err != nil {
		fmt.Println("MACHINERY: cannot read replay file:", err)
		os.Exit(2)
	}
	var rf replayFile
	if err := json.Unmarshal(b, &rf); err != nil {
		fmt.Println("MACHINERY: cannot parse replay file:", err)
		os.Exit(2)
	}
	if rf.Fatal != "" {
		symptom, frame, out := probeFatal(rf.Spec)
		if symptom == rf.Fatal {
			fmt.Printf("REPRODUCED %s/%s sig=%s: the run (seed %d, index %d) ends with %s in %s\n", rf.Property, rf.Rule, rf.Sig, rf.Spec.Seed, rf.Spec.Index, symptom, frame)
			fmt.Printf("VIOLATION property=%s replay=%s\n", rf.Property, path)
			os.Exit(1)
		}
		fmt.Println("NOT REPRODUCED:", symptom, tailStr(out, 400))
		return
	}
	spec := rf.Spec
	spec.Replay = true
	spec.Trace = os.Getenv("VERIF_QUIET") == ""
	res := dispatchRun(t, spec)
	if res.Machinery != "" {
		fmt.Println("MACHINERY:", res.Machinery)
		os.Exit(2)
	}
	if os.Getenv("VERIF_QUIET") == "" {
		for _, d := range res.Desc {
			fmt.Println("SCENARIO", d)
		}
		for _, l := range res.Trace {
			fmt.Println(l)
		}
	}
	fmt.Printf("event-log-hash recorded=%x replayed=%x\n", rf.Hash, res.Hash)
	if hasViolation(res, rf.Rule, "") {
		for _, v := range res.Viol {
			fmt.Printf("REPRODUCED %s/%s sig=%s: %s\n", v.Property, v.Rule, v.Sig, v.Msg)
		}
		fmt.Printf("VIOLATION property=%s replay=%s\n", rf.Property, path)
		os.Exit(1)
	}
	fmt.Println("NOT REPRODUCED")
}

// ---- driver --------------------------------------------------------------------

type agg struct {
	runs, faultFree, faulted, exercised, inconclusive, capped int
	steps, requests, passes                                   int
	simMicros                                                 int64 // integer, so that the sum does not depend on the order of the worker logs
	faults, probes                                            map[string]int
	ilsigs                                                    map[uint64]struct{}
	states                                                    map[uint64]struct{}
	viol                                                      map[string][]cs.RunResult // by rule/sig
	violV                                                     map[string]cs.Violation
	violAt                                                    map[string]cs.RunSpec
	sampleIdx                                                 []int
	incidental                                                map[string]int
	machinery                                                 []string
	died                                                      []int // run indexes during which a worker process ended
	samples                                                   []any
	extraSum                                                  map[string]float64
}

func newAgg() *agg {
	return &agg{faults: map[string]int{}, probes: map[string]int{}, ilsigs: map[uint64]struct{}{}, states: map[uint64]struct{}{},
		viol: map[string][]cs.RunResult{}, violV: map[string]cs.Violation{}, violAt: map[string]cs.RunSpec{}, incidental: map[string]int{}, extraSum: map[string]float64{}}
}

func (a *agg) add(r cs.RunResult) {
	if r.Spec.Mode == "sweep-summary" {
		for k, v := range r.Extra {
			if f, ok := v.(float64); ok {
				a.extraSum[k] += f
			}
		}
		return
	}
	a.runs++
	if r.Spec.FaultFree {
		a.faultFree++
	} else {
		a.faulted++
	}
	if r.Machinery != "" {
		a.machinery = append(a.machinery, fmt.Sprintf("run %d: %s", r.Spec.Index, r.Machinery))
	}
	if r.Exercised {
		a.exercised++
		a.ilsigs[r.ILSig] = struct{}{}
	}
	if r.Inconcl {
		a.inconclusive++
	}
	if r.Capped {
		a.capped++
	}
	a.steps += r.Steps
	a.requests += r.Requests
	a.passes += r.Passes
	a.simMicros += int64(math.Round(r.SimSeconds * 1e6))
	for k, v := range r.Faults {
		a.faults[k] += v
	}
	for k, v := range r.Probes {
		a.probes[k] += v
	}
	for _, s := range r.States {
		a.states[s] = struct{}{}
	}
	for k, v := range r.Extra {
		if f, ok := v.(float64); ok {
			a.extraSum[k] += f
		}
	}
	for _, v := range r.Viol {
		k := v.Rule + "/" + v.Sig
		a.viol[k] = append(a.viol[k], r)
		if at, ok := a.violAt[k]; !ok || runOrder(r.Spec, at) {
			a.violV[k], a.violAt[k] = v, r.Spec
		}
	}
	for _, v := range r.Incidental {
		a.incidental[v.Property+"/"+v.Rule+"/"+v.Sig]++
	}
	if r.Exercised && len(r.Desc) > 0 && r.Spec.Mode == "" && (len(a.samples) < 3 || r.Spec.Index < a.sampleIdx[len(a.sampleIdx)-1]) {
		// the three exercised runs with the lowest index, whatever order the logs are read in
		smp := map[string]any{"run_index": r.Spec.Index, "fault_free": r.Spec.FaultFree, "scenario": r.Desc,
			"steps": r.Steps, "requests": r.Requests, "passes": r.Passes, "faults_fired": r.Faults}
		at := sort.SearchInts(a.sampleIdx, r.Spec.Index)
		a.sampleIdx = append(a.sampleIdx[:at], append([]int{r.Spec.Index}, a.sampleIdx[at:]...)...)
		a.samples = append(a.samples[:at], append([]any{smp}, a.samples[at:]...)...)
		if len(a.samples) > 3 {
			a.samples, a.sampleIdx = a.samples[:3], a.sampleIdx[:3]
		}
	}
}

// runOrder is a total order on the runs of a batch (index, then the sweep position).
func runOrder(x, y cs.RunSpec) bool {
	if x.Index != y.Index {
		return x.Index < y.Index
	}
	if x.Mode != y.Mode {
		return x.Mode < y.Mode
	}
	if x.SweepAt != y.SweepAt {
		return x.SweepAt < y.SweepAt
	}
	return x.SweepKind < y.SweepKind
}

// bySteps orders violating runs for reporting: shortest first, ties by run order.
func bySteps(runs []cs.RunResult) {
	sort.Slice(runs, func(i, j int) bool {
		if runs[i].Steps != runs[j].Steps {
			return runs[i].Steps < runs[j].Steps
		}
		return runOrder(runs[i].Spec, runs[j].Spec)
	})
}

func readWorkerLogs(prop string, a *agg) {
	files, _ := filepath.Glob(filepath.Join(workDir(prop), "worker-*.jsonl"))
	sort.Strings(files)
	for _, f := range files {
		fh, err := os.Open(f)
		if err != nil {
			continue
		}
		sc := bufio.NewScanner(fh)
		sc.Buffer(make([]byte, 64<<20), 64<<20)
		lastBegin := -1
		for sc.Scan() {
			line := sc.Bytes()
			if strings.HasPrefix(string(line), "{\"begin\":") {
				var b struct{ Begin int }
				_ = json.Unmarshal(line, &b)
				lastBegin = b.Begin
				continue
			}
			var r cs.RunResult
			if err := json.Unmarshal(line, &r); err != nil {
				a.machinery = append(a.machinery, "unparsable worker line in "+f)
				continue
			}
			lastBegin = -1
			a.add(r)
		}
		fh.Close()
		if lastBegin >= 0 {
			a.died = append(a.died, lastBegin)
		}
	}
}

type propMeta struct {
	Level       string
	Rule        string
	Assumptions []string
	Engine      string
	NoCommon    bool
}

var commonAssumptions = []string{
	"API server, controller-runtime client, informers, manager wiring, work queues, registry and third parties are simulator stubs (DESIGN.md §2, §3.2, §9); all controllers, reconcilers, adoption/patch/preflight/probing code, dynamiccache.Cache and owner handling are the real code of the current /repo tree",
	"informer staleness is modelled as a consistent prefix of the store's event log (no cross-kind reordering)",
	"seeded sampling of schedules, faults and scenarios; a clean batch is evidence, not proof",
	"simulated with go1.26.8 + testing/synctest (fake clock); the project pins go1.23.8",
}

var e2Assumptions = []string{
	"E2: the lock-using files of the current tree are rewritten at build time (sync.Mutex/RWMutex -> simsync, go statements -> controlled tasks, lockset probes, map ranges -> seeded order); rewriter and simsync are trusted",
	"E2: scheduling points are lock operations, goroutine starts and scripted environment calls; complete for interleavings only while every access to the guarded fields is lock-protected, which the lockset probes check in every run",
	"E2: InformerMap, informers, readers, work queues and the registry pull function are scripted stubs; Cache, cacheSource, EnqueueWatchingObjects, source.Informer and RequestManager are real code",
	"E2: the Go race detector is not used (a serialised schedule orders every access); the lockset rule stands in for it",
}

var metas = map[string]propMeta{
	"C12": {Engine: "E2 concsim", NoCommon: true, Assumptions: e2Assumptions, Rule: "seeded schedules and informer-start faults over generated Watch/Free/Get/List/OwnersForGKV/event programs on the real Cache; each run is decided by direct rules and by a porcupine linearizability check of the recorded history against the sequential reference model. Non-trivial = at least one cache call returned; distinct = distinct sequences of (task, scheduling point) picks"},
	"C20": {Engine: "E2 concsim", NoCommon: true, Assumptions: e2Assumptions, Rule: "seeded schedules and pull errors over generated concurrent Pull programs on the real RequestManager with a scripted registry; each run is decided by history rules (two-in-flight, stuck-caller, entry-leaked, response-shape, wrong-image, stale-response, aliasing, unguarded-access). Non-trivial = at least one registry pull started; distinct = distinct sequences of (task, scheduling point) picks"},
	"C10": {Level: "fault_enumeration", Rule: "two parts: (a) a complete single-fault sweep: for seeded fault-free base runs, one run per (API request of the base run x {error before effect, effect with lost response, crash before the request, crash after the request}) - coverage key sum_sweep_runs counts them, sum_sweep_bases_completed the bases swept completely; (b) seeded random fault sequences, drift and schedules. Every run is compared epoch by epoch with the undisturbed reference run of the same scenario (end-state projection), must reach quiescence within the calm-step budget, and must be idle under an extra pass of every controller. Non-trivial = the comparison was reached; distinct = distinct interleaving signatures"},
}

func metaOf(prop string) propMeta {
	m, ok := metas[prop]
	if !ok {
		m = propMeta{Level: "exploration", Rule: "seeded runs of the real controllers in the cluster simulator; a run is non-trivial when the property's monitor was exercised; distinct = distinct interleaving signatures (hash of the sequence of (actor class, verb, kind, outcome, fault)) among exercised runs", Engine: "E1 clustersim"}
	}
	if m.Level == "" {
		m.Level = "exploration"
	}
	if m.Engine == "" {
		m.Engine = "E1 clustersim"
	}
	if m.NoCommon {
		m.Assumptions = append(append([]string{}, m.Assumptions...), commonAssumptions[2:]...)
	} else {
		m.Assumptions = append(append([]string{}, commonAssumptions...), m.Assumptions...)
	}
	return m
}

func sortedCounts(m map[string]int) map[string]int { return m }

// dispatchRun runs a spec on the engine its property belongs to.
func dispatchRun(t *testing.T, spec cs.RunSpec) cs.RunResult {
	if f, ok := otherEngines[spec.Property]; ok {
		return f(t, spec)
	}
	return cs.RunOne(t, spec)
}

var otherEngines = map[string]func(t *testing.T, spec cs.RunSpec) cs.RunResult{"C12": e2.RunOne, "C20": e2.RunOne}

func TestDriver(t *testing.T) {
	prop := os.Getenv("VERIF_PROP")
	if prop == "" || os.Getenv("VERIF_ROLE") != "driver" {
		t.Skip()
	}
	tier := env("VERIF_TIER", "quick")
	seed := uint64(envInt("VERIF_SEED", 1))
	tc := tierOf(prop, tier)
	start := time.Now()
	wd := workDir(prop)
	_ = os.RemoveAll(wd)
	if err := os.MkdirAll(wd, 0o755); err != nil {
		t.Fatal(err)
	}
	status := func(code int) {
		_ = os.WriteFile(filepath.Join(wd, "status"), []byte(strconv.Itoa(code)), 0o644)
	}
	status(2)

	// workers
	var wg sync.WaitGroup
	var mu sync.Mutex
	var workerErrs []string
	for i := 0; i < tc.Workers; i++ {
		wg.Add(1)
		go func(i int) {
			defer wg.Done()
			cmd := exec.Command(os.Args[0], "-test.run", "^TestWorker$", "-test.timeout", "6h", "-test.cpu", "1")
			cmd.Env = append(os.Environ(),
				"VERIF_ROLE=worker", "VERIF_WORKER="+strconv.Itoa(i), "VERIF_NWORKERS="+strconv.Itoa(tc.Workers),
				"VERIF_WALL_S="+strconv.Itoa(tc.WallS), "VERIF_MAX_RUNS="+strconv.Itoa(tc.MaxRuns), "GOMAXPROCS=2")
			outb, err := cmd.CombinedOutput()
			if err != nil {
				mu.Lock()
				tail := string(outb)
				if len(tail) > 3000 {
					tail = tail[len(tail)-3000:]
				}
				workerErrs = append(workerErrs, fmt.Sprintf("worker %d: %v\n%s", i, err, tail))
				mu.Unlock()
			}
		}(i)
	}
	wg.Wait()

	a := newAgg()
	readWorkerLogs(prop, a)
	known := loadFindings()
	meta := metaOf(prop)
	var fatalLines []string
	fatalNew := 0
	explained := 0
	sort.Ints(a.died)
	for _, idx := range a.died {
		spec := cs.RunSpec{Property: prop, Seed: seed, Index: idx, FaultFree: faultFreeIndex(idx)}
		symptom, frame, out := probeFatal(spec)
		switch {
		case symptom == "":
			a.machinery = append(a.machinery, fmt.Sprintf("a worker died during run index %d but the run returns when executed alone", idx))
		case symptom == "died" || prop != "C19":
			a.machinery = append(a.machinery, fmt.Sprintf("run index %d ends the process (%s): %s", idx, symptom, tailStr(out, 800)))
		default:
			explained++
			v := cs.Violation{Property: prop, Rule: "unbounded-recursion", Sig: symptom + "/" + frame,
				Msg: fmt.Sprintf("run (seed %d, index %d) never returns to the controller runtime: %s in %s; Go cannot recover from this, the manager process dies or spins", seed, idx, symptom, frame)}
			if f := knownMatch(known, v); f != nil {
				continue
			}
			fatalNew++
			rf := replayFile{Property: prop, Rule: v.Rule, Sig: v.Sig, Msg: v.Msg, Engine: meta.Engine, Spec: spec, Fatal: symptom, Trace: []string{tailStr(out, 4000)}}
			dir := env("VERIF_REPLAY_DIR", filepath.Join(verifDir(), "replays"))
			_ = os.MkdirAll(dir, 0o755)
			path := filepath.Join(dir, fmt.Sprintf("%s-%s-%s-seed%d-run%d.json", prop, v.Rule, sanitize(v.Sig), seed, idx))
			b, _ := json.MarshalIndent(rf, "", " ")
			if err := os.WriteFile(path, b, 0o644); err != nil {
				a.machinery = append(a.machinery, "cannot write replay file: "+err.Error())
				continue
			}
			fatalLines = append(fatalLines, fmt.Sprintf("VIOLATION property=%s replay=%s", prop, path))
			fmt.Printf("  rule=%s sig=%s: %s\n", v.Rule, v.Sig, v.Msg)
		}
	}
	if explained < len(a.died) || len(a.died) == 0 {
		for _, e := range workerErrs {
			a.machinery = append(a.machinery, e)
		}
	}

	// violations: triage against known findings, minimise, confirm in a fresh process
	keys := make([]string, 0, len(a.viol))
	for k := range a.viol {
		keys = append(keys, k)
	}
	sort.Strings(keys)
	var violLines, knownLines []string
	knownHits := map[string]int{}
	newViol := 0
	minimised := 0
	for _, k := range keys {
		v := a.violV[k]
		if f := knownMatch(known, v); f != nil {
			knownHits[f.Rule+"/"+f.Sig] = len(a.viol[k])
			// keep one replayable example per listed finding (shortest run of this batch, not minimised)
			runs := a.viol[k]
			bySteps(runs)
			ex := runs[0]
			spec := ex.Spec
			spec.Replay, spec.Trace = true, true
			spec.Sch, spec.Scn = ex.Sch, ex.Scn
			if len(spec.Sch)+len(spec.Scn) > 0 {
				final := dispatchRun(t, spec)
				if hasViolation(final, v.Rule, v.Sig) {
					final.Sch, final.Scn = spec.Sch, spec.Scn
					rf := replayFile{Property: prop, Rule: v.Rule, Sig: v.Sig, Msg: v.Msg, Engine: meta.Engine, Spec: spec, Hash: final.Hash, Desc: final.Desc, Trace: final.Trace}
					dir := filepath.Join(env("VERIF_REPLAY_DIR", filepath.Join(verifDir(), "replays")), "known")
					_ = os.MkdirAll(dir, 0o755)
					b, _ := json.MarshalIndent(rf, "", " ")
					_ = os.WriteFile(filepath.Join(dir, fmt.Sprintf("%s-%s-%s.json", prop, v.Rule, sanitize(v.Sig))), b, 0o644)
				}
			}
			continue
		}
		newViol++
		if minimised >= 3 {
			violLines = append(violLines, fmt.Sprintf("VIOLATION property=%s replay=(not minimised: more than 3 distinct signatures) rule=%s sig=%s", prop, v.Rule, v.Sig))
			continue
		}
		minimised++
		runs := a.viol[k]
		bySteps(runs)
		base := runs[0]
		maxReplays := 400
		if os.Getenv("VERIF_NO_SHRINK") != "" {
			maxReplays = 1
		}
		budget := 120 * time.Second
		if prop == "C10" && tier != "thorough" {
			budget = 40 * time.Second
		}
		small, rep := shrink(t, base, v.Rule, v.Sig, maxReplays, time.Now().Add(budget))
		// final traced replay
		spec := small.Spec
		spec.Replay, spec.Trace = true, true
		spec.Sch, spec.Scn = small.Sch, small.Scn
		final := dispatchRun(t, spec)
		fv := v
		if !hasViolation(final, v.Rule, "") {
			// fall back to the unminimised run
			spec = base.Spec
			spec.Replay, spec.Trace = true, true
			spec.Sch, spec.Scn = base.Sch, base.Scn
			final = dispatchRun(t, spec)
		}
		for _, x := range final.Viol {
			if x.Rule == v.Rule {
				fv = x
				break
			}
		}
		final.Sch, final.Scn = spec.Sch, spec.Scn
		path, err := writeReplay(prop, fv, final, rep)
		if err != nil {
			a.machinery = append(a.machinery, "cannot write replay file: "+err.Error())
			continue
		}
		// confirm in a fresh process
		cmd := exec.Command(os.Args[0], "-test.run", "^TestReplay$", "-test.timeout", "30m")
		cmd.Env = append(os.Environ(), "VERIF_REPLAY="+path, "VERIF_QUIET=1", "VERIF_ROLE=replay")
		outb, err := cmd.CombinedOutput()
		code := 0
		if ee, ok := err.(*exec.ExitError); ok {
			code = ee.ExitCode()
		}
		if code != 1 || !strings.Contains(string(outb), "REPRODUCED") {
			a.machinery = append(a.machinery, fmt.Sprintf("replay %s did not reproduce in a fresh process (exit %d): %s", path, code, tailStr(string(outb), 600)))
			continue
		}
		if f := knownMatch(known, fv); f != nil && (fv.Sig != v.Sig) {
			// minimisation changed the signature into a known one; report the original
		}
		violLines = append(violLines, fmt.Sprintf("VIOLATION property=%s replay=%s", prop, path))
		fmt.Printf("  rule=%s sig=%s runs=%d: %s\n", fv.Rule, fv.Sig, len(runs), fv.Msg)
	}

	for _, f := range known {
		if f.Kind == "known" && f.Property == prop {
			knownLines = append(knownLines, fmt.Sprintf("KNOWN-FINDING: property=%s %s [rule=%s signature=%s; reproduced in %d runs of this batch]", prop, f.What, f.Rule, f.Sig, knownHits[f.Rule+"/"+f.Sig]))
		}
	}
	wall := time.Since(start).Seconds()
	hours := wall / 3600
	cov := map[string]any{
		"evaluations":                 a.runs,
		"distinct_nontrivial":         len(a.ilsigs),
		"rule":                        meta.Rule,
		"samples":                     a.samples,
		"exercised_runs":              a.exercised,
		"fault_free_runs":             a.faultFree,
		"faulted_runs":                a.faulted,
		"inconclusive_runs":           a.inconclusive,
		"capped_runs":                 a.capped,
		"scheduler_steps":             a.steps,
		"api_requests":                a.requests,
		"reconcile_passes":            a.passes,
		"simulated_seconds":           float64(a.simMicros) / 1e6,
		"runs_per_hour":               float64(a.runs) / hours,
		"faults_fired":                a.faults,
		"rare_branch_probes":          a.probes,
		"distinct_abstract_states":    len(a.states),
		"incidental_other_properties": a.incidental,
		"known_findings_matched":      knownLines,
		"workers":                     tc.Workers,
		"budget":                      budgetText(prop, tier, tc),
		"engine":                      meta.Engine,
		"real_vs_stub":                "real: all PKO controllers/reconcilers/adoption/patcher/preflight/probing/dynamiccache.Cache/ownerhandling; stub: API server, client, informers, manager wiring, queues, registry, third parties",
	}
	if strings.HasPrefix(meta.Engine, "E2") {
		delete(cov, "api_requests")
		delete(cov, "reconcile_passes")
		cov["operation_stamps"] = a.requests
		cov["goroutines_scheduled"] = a.passes
		cov["simulated_seconds"] = "not applicable: the components under E2 have no timers; time is the scheduler step count"
		cov["real_vs_stub"] = "real: dynamiccache.Cache, cacheSource, EnqueueWatchingObjects, controller-runtime source.Informer, packageimport.RequestManager, RawPackage.DeepCopy (source of the current tree, locks/go statements/map ranges machine-rewritten to simulator primitives); stub: InformerMap, informers, cache readers, work queues, registry pull function"
	}
	for k, v := range a.extraSum {
		cov["sum_"+k] = v
	}
	if len(a.samples) == 0 {
		cov["samples"] = []any{"no exercised run in this batch"}
	}
	ev := map[string]any{
		"property_id": prop, "tier": tier, "seed": seed, "level": meta.Level,
		"coverage": cov, "assumptions": meta.Assumptions, "wall_s": wall, "violations": newViol + fatalNew,
	}
	evDir := env("VERIF_EVIDENCE_DIR", filepath.Join(verifDir(), "evidence"))
	_ = os.MkdirAll(evDir, 0o755)
	b, _ := json.MarshalIndent(ev, "", " ")
	if err := os.WriteFile(filepath.Join(evDir, prop+".json"), b, 0o644); err != nil {
		a.machinery = append(a.machinery, "cannot write evidence: "+err.Error())
	}

	fmt.Printf("%s %s seed=%d: %d runs (%d exercised, %d distinct interleavings, %d fault-free, %d inconclusive) %d steps %d requests %.0f sim-seconds in %.0fs; faults fired: %v\n",
		prop, tier, seed, a.runs, a.exercised, len(a.ilsigs), a.faultFree, a.inconclusive, a.steps, a.requests, float64(a.simMicros)/1e6, wall, a.faults)
	for _, l := range knownLines {
		fmt.Println(l)
	}
	if len(a.machinery) > 0 {
		for i, m := range a.machinery {
			if i == 8 {
				fmt.Printf("MACHINERY: ... and %d more\n", len(a.machinery)-8)
				break
			}
			fmt.Println("MACHINERY:", m)
		}
		status(2)
		return
	}
	if a.runs == 0 {
		fmt.Println("MACHINERY: no run completed")
		status(2)
		return
	}
	violLines = append(violLines, fatalLines...)
	if len(violLines) > 0 {
		for _, l := range violLines {
			fmt.Println(l)
		}
		status(1)
		return
	}
	status(0)
}

func tailStr(s string, n int) string {
	if len(s) > n {
		return s[len(s)-n:]
	}
	return s
}
