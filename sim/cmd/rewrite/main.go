// Command rewrite copies a Go source file replacing sync.Mutex / sync.RWMutex by
// their simsync counterparts and `go f(x)` statements by simsync.GoStmt, so that
// every lock operation and goroutine start of the component becomes a
// scheduling point of the E2 simulator. Usage: rewrite <in.go> <out.go>
package main

import (
	"bytes"
	"fmt"
	"go/ast"
	"go/format"
	"go/parser"
	"go/token"
	"os"
	"path/filepath"
	"strconv"
)

// guarded lists struct fields whose every access must happen under a lock (lockset check).
var guarded = map[string]bool{"informerReferences": true, "inFlight": true, "handlers": true, "blockNew": true}

// mapFields lists map-typed struct fields; a range over one of them is rewritten to walk
// simsync.MapKeys (sorted, then permuted by the simulator) so that iteration order is a recorded choice.
var mapFields = map[string]bool{"informerReferences": true, "registryHostOverrides": true}

func rewriteMapRange(rs *ast.RangeStmt) bool {
	sel, ok := rs.X.(*ast.SelectorExpr)
	if !ok || !mapFields[sel.Sel.Name] {
		return false
	}
	orig := rs.X
	key := rs.Key
	if id, ok := key.(*ast.Ident); key == nil || (ok && id.Name == "_") {
		key = ast.NewIdent("simsyncKey")
		rs.Tok = token.DEFINE
	}
	var pre []ast.Stmt
	okID := ast.NewIdent("simsyncOK")
	var lhsV ast.Expr = ast.NewIdent("_")
	if rs.Value != nil {
		lhsV = rs.Value
	}
	tok := token.DEFINE
	pre = append(pre, &ast.AssignStmt{Lhs: []ast.Expr{lhsV, okID}, Tok: tok,
		Rhs: []ast.Expr{&ast.IndexExpr{X: orig, Index: key}}})
	pre = append(pre, &ast.IfStmt{Cond: &ast.UnaryExpr{Op: token.NOT, X: okID},
		Body: &ast.BlockStmt{List: []ast.Stmt{&ast.BranchStmt{Tok: token.CONTINUE}}}})
	rs.X = &ast.CallExpr{Fun: &ast.SelectorExpr{X: ast.NewIdent("simsync"), Sel: ast.NewIdent("MapKeys")}, Args: []ast.Expr{orig}}
	rs.Value = key
	rs.Key = ast.NewIdent("_")
	rs.Body.List = append(pre, rs.Body.List...)
	return true
}

// mentions reports the guarded field an expression touches (not descending into function literals).
func mentions(n ast.Node) string {
	found := ""
	if n == nil {
		return ""
	}
	ast.Inspect(n, func(x ast.Node) bool {
		switch v := x.(type) {
		case *ast.FuncLit, *ast.BlockStmt:
			return false
		case *ast.SelectorExpr:
			if guarded[v.Sel.Name] && found == "" {
				found = v.Sel.Name
			}
		}
		return true
	})
	return found
}

// classify returns the guarded field a statement touches outside nested blocks and whether it writes it.
func classify(st ast.Stmt) (string, bool) {
	switch s := st.(type) {
	case *ast.AssignStmt:
		for _, l := range s.Lhs {
			if f := mentions(l); f != "" {
				return f, true
			}
		}
		for _, r := range s.Rhs {
			if f := mentions(r); f != "" {
				return f, false
			}
		}
	case *ast.IncDecStmt:
		if f := mentions(s.X); f != "" {
			return f, true
		}
	case *ast.ExprStmt:
		if c, ok := s.X.(*ast.CallExpr); ok {
			if id, ok := c.Fun.(*ast.Ident); ok && id.Name == "delete" && len(c.Args) > 0 {
				if f := mentions(c.Args[0]); f != "" {
					return f, true
				}
			}
		}
		if f := mentions(s.X); f != "" {
			return f, false
		}
	case *ast.IfStmt:
		if s.Init != nil {
			if f, w := classify(s.Init); f != "" {
				return f, w
			}
		}
		if f := mentions(s.Cond); f != "" {
			return f, false
		}
	case *ast.RangeStmt:
		if f := mentions(s.X); f != "" {
			return f, false
		}
	case *ast.ForStmt:
		if f := mentions(s.Cond); f != "" {
			return f, false
		}
	case *ast.ReturnStmt:
		for _, r := range s.Results {
			if f := mentions(r); f != "" {
				return f, false
			}
		}
	case *ast.DeclStmt:
		if f := mentions(s.Decl); f != "" {
			return f, false
		}
	case *ast.SwitchStmt:
		if f := mentions(s.Tag); f != "" {
			return f, false
		}
	}
	return "", false
}

const simsyncPath = "package-operator.run/internal/zzverif/simsync"

func main() {
	if len(os.Args) != 3 {
		fmt.Fprintln(os.Stderr, "usage: rewrite <in.go> <out.go>")
		os.Exit(2)
	}
	fset := token.NewFileSet()
	f, err := parser.ParseFile(fset, os.Args[1], nil, parser.ParseComments)
	if err != nil {
		fmt.Fprintln(os.Stderr, err)
		os.Exit(2)
	}
	changed := false
	syncStillUsed := false
	ast.Inspect(f, func(n ast.Node) bool {
		switch x := n.(type) {
		case *ast.SelectorExpr:
			if id, ok := x.X.(*ast.Ident); ok && id.Name == "sync" {
				if x.Sel.Name == "Mutex" || x.Sel.Name == "RWMutex" {
					id.Name = "simsync"
					changed = true
				} else {
					syncStillUsed = true
				}
			}
		}
		return true
	})
	base := filepath.Base(os.Args[1])
	instrument := func(list []ast.Stmt) []ast.Stmt {
		var out []ast.Stmt
		for _, st := range list {
			if _, ok := st.(*ast.SendStmt); ok {
				// a channel send hands a value to another goroutine: let the scheduler run the
				// receiver before the sender continues (what it does with the value races with
				// whatever the sender still does with it)
				out = append(out, st, &ast.ExprStmt{X: &ast.CallExpr{
					Fun:  &ast.SelectorExpr{X: ast.NewIdent("simsync"), Sel: ast.NewIdent("Yield")},
					Args: []ast.Expr{&ast.BasicLit{Kind: token.STRING, Value: strconv.Quote("chan-send")}},
				}})
				changed = true
				continue
			}
			if f, w := classify(st); f != "" {
				site := fmt.Sprintf("%s:%d", base, fset.Position(st.Pos()).Line)
				wr := "false"
				if w {
					wr = "true"
				}
				out = append(out, &ast.ExprStmt{X: &ast.CallExpr{
					Fun: &ast.SelectorExpr{X: ast.NewIdent("simsync"), Sel: ast.NewIdent("Access")},
					Args: []ast.Expr{
						&ast.BasicLit{Kind: token.STRING, Value: strconv.Quote(f)}, ast.NewIdent(wr),
						&ast.BasicLit{Kind: token.STRING, Value: strconv.Quote(site)},
					},
				}})
				changed = true
			}
			out = append(out, st)
		}
		return out
	}
	// go statements
	var rewriteStmts func(list []ast.Stmt)
	rewriteStmts = func(list []ast.Stmt) {
		for i, st := range list {
			if g, ok := st.(*ast.GoStmt); ok {
				call := &ast.CallExpr{
					Fun: &ast.SelectorExpr{X: ast.NewIdent("simsync"), Sel: ast.NewIdent("GoStmt")},
					Args: []ast.Expr{&ast.FuncLit{
						Type: &ast.FuncType{Params: &ast.FieldList{}},
						Body: &ast.BlockStmt{List: []ast.Stmt{&ast.ExprStmt{X: g.Call}}},
					}},
				}
				list[i] = &ast.ExprStmt{X: call}
				changed = true
			}
		}
	}
	ast.Inspect(f, func(n ast.Node) bool {
		if rs, ok := n.(*ast.RangeStmt); ok && rewriteMapRange(rs) {
			changed = true
		}
		return true
	})
	ast.Inspect(f, func(n ast.Node) bool {
		switch x := n.(type) {
		case *ast.BlockStmt:
			rewriteStmts(x.List)
			x.List = instrument(x.List)
		case *ast.CaseClause:
			rewriteStmts(x.Body)
			x.Body = instrument(x.Body)
		case *ast.CommClause:
			rewriteStmts(x.Body)
			x.Body = instrument(x.Body)
		}
		return true
	})
	if changed {
		// add the simsync import, drop sync if unused
		for _, d := range f.Decls {
			gd, ok := d.(*ast.GenDecl)
			if !ok || gd.Tok != token.IMPORT {
				continue
			}
			var specs []ast.Spec
			for _, s := range gd.Specs {
				is := s.(*ast.ImportSpec)
				if p, _ := strconv.Unquote(is.Path.Value); p == "sync" && !syncStillUsed {
					continue
				}
				specs = append(specs, s)
			}
			specs = append(specs, &ast.ImportSpec{Path: &ast.BasicLit{Kind: token.STRING, Value: strconv.Quote(simsyncPath)}})
			gd.Specs = specs
			break
		}
	}
	var buf bytes.Buffer
	if err := format.Node(&buf, fset, f); err != nil {
		fmt.Fprintln(os.Stderr, err)
		os.Exit(2)
	}
	if err := os.WriteFile(os.Args[2], buf.Bytes(), 0o644); err != nil {
		fmt.Fprintln(os.Stderr, err)
		os.Exit(2)
	}
}
