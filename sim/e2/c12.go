package e2

import (
	"context"
	"errors"
	"fmt"
	"sort"
	"strings"
	"time"

	"github.com/anishathalye/porcupine"
	appsv1 "k8s.io/api/apps/v1"
	corev1 "k8s.io/api/core/v1"
	apierrors "k8s.io/apimachinery/pkg/api/errors"
	metav1 "k8s.io/apimachinery/pkg/apis/meta/v1"
	"k8s.io/apimachinery/pkg/apis/meta/v1/unstructured"
	"k8s.io/apimachinery/pkg/runtime"
	"k8s.io/apimachinery/pkg/runtime/schema"
	"k8s.io/apimachinery/pkg/types"
	toolscache "k8s.io/client-go/tools/cache"
	"k8s.io/client-go/util/workqueue"
	"sigs.k8s.io/controller-runtime/pkg/client"
	"sigs.k8s.io/controller-runtime/pkg/reconcile"

	corev1alpha1 "package-operator.run/apis/core/v1alpha1"
	"package-operator.run/internal/dynamiccache"
	"package-operator.run/internal/packages/verifsim/cs"
	"package-operator.run/internal/zzverif/simsync"
)

func init() { plans["C12"] = planC12 }

var c12Kinds = []schema.GroupVersionKind{
	{Version: "v1", Kind: "ConfigMap"},
	{Version: "v1", Kind: "Secret"},
	{Group: "apps", Version: "v1", Kind: "Deployment"},
}

// ---- scripted informer map (stub of dynamiccache.InformerMap) ----------------------

type finf struct {
	toolscache.SharedIndexInformer // nil; only the methods below are called
	c                              *c12
	id                             int
	gvk                            schema.GroupVersionKind
	handlers                       []toolscache.ResourceEventHandler
	stopped                        bool
	ready                          bool // the Watch that started it returned successfully
}

type fakeReg struct{}

func (fakeReg) HasSynced() bool { return true }

func (f *finf) AddEventHandler(h toolscache.ResourceEventHandler) (toolscache.ResourceEventHandlerRegistration, error) {
	if f.c.sim.Fault("handler-registration-failure", 1, 4) {
		return nil, errors.New("injected: handler was not added because informer is stopped")
	}
	f.handlers = append(f.handlers, h)
	return fakeReg{}, nil
}
func (f *finf) HasSynced() bool { return true }
func (f *finf) IsStopped() bool { return f.stopped }

type freader struct{ gvk schema.GroupVersionKind }

func (r freader) Get(_ context.Context, key client.ObjectKey, _ client.Object, _ ...client.GetOption) error {
	return apierrors.NewNotFound(schema.GroupResource{Group: r.gvk.Group, Resource: r.gvk.Kind}, key.Name)
}
func (r freader) List(context.Context, client.ObjectList, ...client.ListOption) error { return nil }

type imap struct {
	c       *c12
	running map[schema.GroupVersionKind]*finf
	nextID  int
	creates int
	deletes int
}

func (m *imap) Get(_ context.Context, gvk schema.GroupVersionKind, _ runtime.Object) (toolscache.SharedIndexInformer, client.Reader, error) {
	op := currentOp()
	if inf, ok := m.running[gvk]; ok {
		// existing informer: the real map may still wait for its sync here
		simsync.Yield("informer-get")
		return inf, freader{gvk}, nil
	}
	if op != nil {
		op.createAttempt = true
		if op.kind != "watch" {
			m.c.sim.Report("silent-start", op.kind, fmt.Sprintf("%s of %s by %s made the cache start an informer although the call is a read", op.kind, gvk.Kind, op.owner))
		}
	}
	// the informer lists and syncs: other callers can run meanwhile
	simsync.Yield("informer-start")
	if m.c.sim.Fault("informer-start-failure", 1, 3) {
		// failure before the informer exists (REST mapping / list-watch construction)
		return nil, nil, errors.New("injected: no matches for kind")
	}
	m.nextID++
	m.creates++
	inf := &finf{c: m.c, id: m.nextID, gvk: gvk}
	m.running[gvk] = inf
	if op != nil {
		op.created = append(op.created, inf)
	}
	m.c.sim.Tracef("informer %d for %s started", inf.id, gvk.Kind)
	if m.c.sim.Fault("informer-sync-failure", 1, 3) {
		// like the real map: the informer is in the map and running, waiting for its first sync was cut short
		return nil, nil, apierrors.NewTimeoutError("injected: failed waiting for Informer to sync", 0)
	}
	return inf, freader{gvk}, nil
}

func (m *imap) Delete(_ context.Context, gvk schema.GroupVersionKind) error {
	inf, ok := m.running[gvk]
	if !ok {
		return nil
	}
	inf.stopped = true
	delete(m.running, gvk)
	m.deletes++
	if op := currentOp(); op != nil {
		op.deleted = append(op.deleted, gvk.Kind)
	}
	m.c.sim.Tracef("informer %d for %s stopped", inf.id, gvk.Kind)
	return nil
}

type nopRecorder struct{}

func (nopRecorder) RecordDynamicCacheInformers(int)                        {}
func (nopRecorder) RecordDynamicCacheObjects(schema.GroupVersionKind, int) {}

// ---- work queue stub ----------------------------------------------------------------

type fqueue struct {
	workqueue.TypedRateLimitingInterface[reconcile.Request]
}

// Add records the request in the operation of the delivering task.
func (q *fqueue) Add(r reconcile.Request) {
	if op := currentOp(); op != nil {
		op.out = append(op.out, r.String())
	}
}

// ---- operations --------------------------------------------------------------------------

type c12op struct {
	task  int
	kind  string // watch, free, get, list, owners, event, final-owners, final-running
	owner string // owner reference (model key)
	k     string // object kind
	h     int    // handler index (event)

	call, ret     int
	err           string
	notStarted    bool
	createAttempt bool
	created       []*finf
	deleted       []string
	out           []string // owners / enqueued requests
	running       bool
}

func currentOp() *c12op {
	t := simsync.CurrentTask()
	if t == nil {
		return nil
	}
	op, _ := t.Local.(*c12op)
	return op
}

func (o *c12op) String() string {
	s := fmt.Sprintf("t%d %s", o.task, o.kind)
	if o.owner != "" {
		s += " owner=" + o.owner
	}
	if o.k != "" {
		s += " kind=" + o.k
	}
	if o.kind == "event" {
		s += fmt.Sprintf(" handler=%d", o.h)
	}
	s += fmt.Sprintf(" [%d,%d] ->", o.call, o.ret)
	if o.err != "" {
		s += " err=" + o.err
	}
	if o.notStarted {
		s += " not-started"
	}
	if len(o.created) > 0 {
		s += fmt.Sprintf(" started-informers=%d", len(o.created))
	}
	if len(o.deleted) > 0 {
		s += fmt.Sprintf(" stopped=%v", o.deleted)
	}
	if o.kind == "owners" || o.kind == "event" || o.kind == "final-owners" {
		s += fmt.Sprintf(" out=%v", o.out)
	}
	if o.kind == "final-running" {
		s += fmt.Sprintf(" running=%v", o.running)
	}
	return s
}

type c12owner struct {
	obj  client.Object
	ref  string // model key
	kind string
	req  string // reconcile request string a handler enqueues for it
}

type c12 struct {
	sim      *Sim
	cache    *dynamiccache.Cache
	im       *imap
	owners   []c12owner
	kinds    []schema.GroupVersionKind
	handlers []string // watcher kind per handler
	queues   []*fqueue
	ops      []*c12op
}

func ownerKey(kind, ns, name, uid string) string { return kind + "/" + ns + "/" + name + "#" + uid }

func refKey(r dynamiccache.OwnerReference) string {
	return ownerKey(r.Kind, r.Namespace, r.Name, string(r.UID))
}

func (c *c12) kindObj(gvk schema.GroupVersionKind) *unstructured.Unstructured {
	u := &unstructured.Unstructured{}
	u.SetGroupVersionKind(gvk)
	return u
}

func planC12(s *Sim, spec cs.RunSpec) {
	scheme := runtime.NewScheme()
	must(corev1alpha1.AddToScheme(scheme))
	must(corev1.AddToScheme(scheme))
	must(appsv1.AddToScheme(scheme))
	c := &c12{sim: s}
	c.im = &imap{c: c, running: map[schema.GroupVersionKind]*finf{}}
	if s.Scn.Bool("metrics-recorder") {
		// production wires a metrics recorder: Watch and Free then list every watched kind at their end
		c.cache = dynamiccache.NewCacheForSimWithRecorder(scheme, c.im, nopRecorder{})
	} else {
		c.cache = dynamiccache.NewCacheForSim(scheme, c.im)
	}
	s.drawFaultMix("informer-start-failure", "informer-sync-failure", "handler-registration-failure")

	// ---- scenario ----
	nk := 1 + s.Scn.Intn(3, "kinds")
	c.kinds = c12Kinds[:nk]
	no := 1 + s.Scn.Intn(3, "owners")
	for i := 0; i < no; i++ {
		var o client.Object
		kind := "ObjectSet"
		name, ns, uid := fmt.Sprintf("o%d", i), "ns", fmt.Sprintf("uid-%d", i)
		switch s.Scn.Weighted([]int{4, 2, 1}, "owner-kind") {
		case 1:
			kind, ns = "ClusterObjectSet", ""
			o = &corev1alpha1.ClusterObjectSet{ObjectMeta: metav1.ObjectMeta{Name: name, UID: types.UID(uid)}}
		case 2:
			// a re-created owner: same name as owner 0, other UID
			if i > 0 && c.owners[0].kind == "ObjectSet" {
				name = "o0"
			}
			o = &corev1alpha1.ObjectSet{ObjectMeta: metav1.ObjectMeta{Name: name, Namespace: ns, UID: types.UID(uid)}}
		default:
			o = &corev1alpha1.ObjectSet{ObjectMeta: metav1.ObjectMeta{Name: name, Namespace: ns, UID: types.UID(uid)}}
		}
		req := reconcile.Request{NamespacedName: types.NamespacedName{Name: name, Namespace: ns}}.String()
		c.owners = append(c.owners, c12owner{obj: o, ref: ownerKey(kind, ns, name, uid), kind: kind, req: req})
	}
	nh := s.Scn.Intn(4, "handlers")
	ctx := context.Background()
	for i := 0; i < nh; i++ {
		var wt runtime.Object = &corev1alpha1.ObjectSet{}
		wk := "ObjectSet"
		if s.Scn.Chance(1, 3, "handler-kind") {
			wt, wk = &corev1alpha1.ClusterObjectSet{}, "ClusterObjectSet"
		}
		q := &fqueue{}
		src := c.cache.Source(dynamiccache.NewEnqueueWatchingObjects(c.cache, wt, scheme))
		must(src.Start(ctx, q))
		c.handlers = append(c.handlers, wk)
		c.queues = append(c.queues, q)
	}
	must(c.cache.Start(ctx))

	nt := 1 + s.Scn.Intn(4, "tasks")
	total := 0
	var progs [][]*c12op
	for t := 0; t < nt; t++ {
		n := 1 + s.Scn.Intn(5, "ops")
		var prog []*c12op
		for j := 0; j < n && total < 14; j++ {
			op := &c12op{task: t}
			switch s.Scn.Weighted([]int{5, 3, 2, 1, 1, 2}, "op") {
			case 0:
				op.kind = "watch"
			case 1:
				op.kind = "free"
			case 2:
				op.kind = "get"
			case 3:
				op.kind = "list"
			case 4:
				op.kind = "owners"
			case 5:
				op.kind = "event"
			}
			if op.kind == "watch" || op.kind == "free" {
				op.owner = c.owners[s.Scn.Intn(len(c.owners), "op-owner")].ref
			}
			if op.kind != "free" {
				op.k = c.kinds[s.Scn.Intn(len(c.kinds), "op-kind")].Kind
			}
			prog = append(prog, op)
			total++
		}
		progs = append(progs, prog)
	}
	s.Desc = append(s.Desc, fmt.Sprintf("C12 kinds=%d owners=%d handlers=%v tasks=%d ops=%d faults=%v budget=%d", nk, no, c.handlers, nt, total, keysOf(s.FaultOn), s.Budget))
	for t, prog := range progs {
		var l []string
		for _, op := range prog {
			l = append(l, strings.TrimSpace(op.kind+" "+op.owner+" "+op.k))
		}
		s.Desc = append(s.Desc, fmt.Sprintf("  task %d: %s", t, strings.Join(l, "; ")))
	}
	s.StateFn = c.stateString

	for t, prog := range progs {
		prog := prog
		s.Go(fmt.Sprintf("caller%d", t), func() {
			for _, op := range prog {
				c.exec(ctx, op)
				simsync.Yield("between-ops")
			}
		})
	}
	s.Run(2000)
	if s.stop {
		return
	}
	if s.capped {
		s.inconcl = true
		return
	}
	if st := s.stuck(); len(st) > 0 {
		s.Report("deadlock", strings.Join(st, ","), fmt.Sprintf("no task can run but %v did not finish", st))
		return
	}
	c.finalChecks()
}

func (c *c12) ownerByRef(ref string) c12owner {
	for _, o := range c.owners {
		if o.ref == ref {
			return o
		}
	}
	panic("unknown owner " + ref)
}

func (c *c12) gvkOf(kind string) schema.GroupVersionKind {
	for _, k := range c12Kinds {
		if k.Kind == kind {
			return k
		}
	}
	panic("unknown kind " + kind)
}

func (c *c12) exec(ctx context.Context, op *c12op) {
	t := simsync.CurrentTask()
	s := c.sim
	gvk := schema.GroupVersionKind{}
	if op.k != "" {
		gvk = c.gvkOf(op.k)
	}
	if op.kind == "event" {
		// the informer goroutine delivers an event to every attached handler, one after the other
		inf := c.im.running[gvk]
		if inf == nil || !inf.ready {
			s.Probes["event-without-ready-informer"]++
			return
		}
		s.Probes["event-delivered"]++
		obj := c.kindObj(gvk)
		obj.SetName("x")
		obj.SetNamespace("ns")
		for hi, h := range inf.handlers {
			hop := &c12op{task: op.task, kind: "event", k: op.k, h: hi}
			t.Local = hop
			hop.call = s.tick()
			h.OnAdd(obj, false)
			hop.ret = s.tick()
			t.Local = nil
			sort.Strings(hop.out)
			c.ops = append(c.ops, hop)
			s.Tracef("%s", hop)
		}
		return
	}
	t.Local = op
	op.call = s.tick()
	var err error
	switch op.kind {
	case "watch":
		err = c.cache.Watch(ctx, c.ownerByRef(op.owner).obj, c.kindObj(gvk))
	case "free":
		err = c.cache.Free(ctx, c.ownerByRef(op.owner).obj)
	case "get":
		err = c.cache.Get(ctx, client.ObjectKey{Namespace: "ns", Name: "x"}, c.kindObj(gvk))
		if apierrors.IsNotFound(err) {
			err = nil
		}
	case "list":
		l := &unstructured.UnstructuredList{}
		l.SetGroupVersionKind(schema.GroupVersionKind{Group: gvk.Group, Version: gvk.Version, Kind: gvk.Kind + "List"})
		err = c.cache.List(ctx, l)
	case "owners":
		for _, r := range c.cache.OwnersForGKV(gvk) {
			op.out = append(op.out, refKey(r))
		}
		sort.Strings(op.out)
	}
	op.ret = s.tick()
	t.Local = nil
	if err != nil {
		var ns *dynamiccache.CacheNotStartedError
		if errors.As(err, &ns) {
			op.notStarted = true
		} else {
			op.err = err.Error()
		}
	}
	sort.Strings(op.deleted)
	c.ops = append(c.ops, op)
	s.Tracef("%s", op)
	s.exercised = true

	// direct rules on what this call did to the informer map
	if op.kind == "watch" {
		for _, inf := range op.created {
			if op.err == "" {
				inf.ready = true
				if len(inf.handlers) != len(c.handlers) {
					s.Report("handlers-missing", "watch-returned", fmt.Sprintf("Watch(%s, %s) succeeded and started informer %d, which has %d of the %d registered event handlers", op.owner, op.k, inf.id, len(inf.handlers), len(c.handlers)))
				}
			} else if !inf.stopped {
				s.Report("informer-leaked", "failed-watch", fmt.Sprintf("Watch(%s, %s) failed (%s) but informer %d which it started keeps running with no owner and %d of %d handlers", op.owner, op.k, op.err, inf.id, len(inf.handlers), len(c.handlers)))
			}
		}
	}
}

func (c *c12) stateString() string {
	refs := c.cache.SimReferencesUnlocked()
	var parts []string
	for gvk, owners := range refs {
		var os []string
		for _, o := range owners {
			os = append(os, refKey(o))
		}
		sort.Strings(os)
		parts = append(parts, gvk.Kind+"="+strings.Join(os, ","))
	}
	for gvk, inf := range c.im.running {
		parts = append(parts, fmt.Sprintf("inf:%s:%d", gvk.Kind, len(inf.handlers)))
	}
	sort.Strings(parts)
	var tasks []string
	for _, t := range c.sim.S.Tasks {
		tasks = append(tasks, t.At)
	}
	return strings.Join(parts, ";") + "|" + strings.Join(tasks, ",")
}

// finalChecks adds the closing observations and decides linearizability.
func (c *c12) finalChecks() {
	s := c.sim
	for _, gvk := range c.kinds {
		op := &c12op{task: -1, kind: "final-owners", k: gvk.Kind, call: s.tick()}
		for _, r := range c.cache.OwnersForGKV(gvk) {
			op.out = append(op.out, refKey(r))
		}
		sort.Strings(op.out)
		op.ret = s.tick()
		c.ops = append(c.ops, op)
		s.Tracef("%s", op)
		inf := c.im.running[gvk]
		op2 := &c12op{task: -1, kind: "final-running", k: gvk.Kind, call: s.tick(), running: inf != nil}
		op2.ret = s.tick()
		c.ops = append(c.ops, op2)
		s.Tracef("%s", op2)
		if inf != nil && len(inf.handlers) != len(c.handlers) {
			s.Report("handlers-missing", "at-end", fmt.Sprintf("informer %d for %s runs with %d of the %d registered event handlers", inf.id, gvk.Kind, len(inf.handlers), len(c.handlers)))
			return
		}
		if (inf != nil) != (len(op.out) > 0) {
			what := "runs although no owner watches the kind"
			sig := "informer-without-owner"
			if inf == nil {
				what, sig = fmt.Sprintf("does not run although %v watch the kind", op.out), "owner-without-informer"
			}
			s.Report("informer-lifetime", sig, fmt.Sprintf("after all calls returned the informer for %s %s", gvk.Kind, what))
			return
		}
	}
	// linearizability against the sequential reference model
	var pops []porcupine.Operation
	for _, op := range c.ops {
		cid := op.task
		if cid < 0 {
			cid = 90
		}
		pops = append(pops, porcupine.Operation{ClientId: cid, Input: op, Call: int64(op.call), Output: op, Return: int64(op.ret)})
	}
	res, _ := porcupine.CheckOperationsVerbose(c.model(), pops, 20*time.Second)
	switch res {
	case porcupine.Illegal:
		var l []string
		for _, op := range c.ops {
			l = append(l, op.String())
		}
		s.Report("not-linearizable", c.firstSequentialMismatch(), "no sequential order of the calls consistent with their real-time order explains the observed results under the reference model (kind -> owner set; informer started by the first Watch, stopped by the Free of the last owner; reads fail iff no owner): "+strings.Join(l, " | "))
	case porcupine.Unknown:
		s.inconcl = true
	}
}

// ---- reference model --------------------------------------------------------------------

type c12state map[string]map[string]bool // kind -> owner set

func (st c12state) clone() c12state {
	out := c12state{}
	for k, v := range st {
		m := map[string]bool{}
		for o := range v {
			m[o] = true
		}
		out[k] = m
	}
	return out
}

func (st c12state) key() string {
	var parts []string
	for k, v := range st {
		if len(v) == 0 {
			continue
		}
		parts = append(parts, k+"="+strings.Join(sortedSet(v), ","))
	}
	sort.Strings(parts)
	return strings.Join(parts, ";")
}

func sortedSet(m map[string]bool) []string {
	var out []string
	for k := range m {
		out = append(out, k)
	}
	sort.Strings(out)
	return out
}

func eqStr(a, b []string) bool {
	if len(a) != len(b) {
		return false
	}
	for i := range a {
		if a[i] != b[i] {
			return false
		}
	}
	return true
}

// step is the sequential specification: whether op's observed result is
// possible in state st, and the state afterwards.
func (c *c12) step(st c12state, op *c12op) (bool, c12state, string) {
	switch op.kind {
	case "watch":
		if op.err != "" {
			// a failed watch leaves no trace (informer leak is judged by the informer-leaked rule)
			return true, st, ""
		}
		wantCreate := len(st[op.k]) == 0
		if (len(op.created) > 0) != wantCreate {
			return false, st, fmt.Sprintf("watch/started=%v-want-%v", len(op.created) > 0, wantCreate)
		}
		if len(op.deleted) > 0 {
			return false, st, "watch/stopped-informer"
		}
		n := st.clone()
		if n[op.k] == nil {
			n[op.k] = map[string]bool{}
		}
		n[op.k][op.owner] = true
		return true, n, ""
	case "free":
		var want []string
		for k, os := range st {
			if len(os) == 1 && os[op.owner] {
				want = append(want, k)
			}
		}
		sort.Strings(want)
		if op.err != "" {
			return false, st, "free/error"
		}
		if !eqStr(want, op.deleted) {
			return false, st, "free/stopped-informers"
		}
		n := st.clone()
		for k := range n {
			delete(n[k], op.owner)
		}
		return true, n, ""
	case "get", "list":
		if op.notStarted != (len(st[op.k]) == 0) {
			return false, st, op.kind + "/not-started-mismatch"
		}
		if op.err != "" || len(op.created) > 0 {
			return false, st, op.kind + "/error-or-start"
		}
		return true, st, ""
	case "owners", "final-owners":
		if !eqStr(op.out, sortedSet(st[op.k])) {
			return false, st, "owners/mismatch"
		}
		return true, st, ""
	case "event":
		var want []string
		for o := range st[op.k] {
			ow := c.ownerByRef(o)
			if ow.kind == c.handlers[op.h] {
				want = append(want, ow.req)
			}
		}
		sort.Strings(want)
		// one request per watching owner (owners that share a name produce equal requests; the real queue would merge them)
		if !eqStr(want, op.out) {
			return false, st, "event/enqueued-mismatch"
		}
		return true, st, ""
	case "final-running":
		if op.running != (len(st[op.k]) > 0) {
			return false, st, "running/mismatch"
		}
		return true, st, ""
	}
	panic("unknown op " + op.kind)
}

func (c *c12) model() porcupine.Model {
	return porcupine.Model{
		Init: func() any { return c12state{} },
		Step: func(state, input, _ any) (bool, any) {
			ok, n, _ := c.step(state.(c12state), input.(*c12op))
			return ok, n
		},
		Equal: func(a, b any) bool { return a.(c12state).key() == b.(c12state).key() },
	}
}

// firstSequentialMismatch gives a stable signature for a non-linearizable
// history: the first rule that fails when the calls are applied in return order.
func (c *c12) firstSequentialMismatch() string {
	ops := append([]*c12op{}, c.ops...)
	sort.SliceStable(ops, func(i, j int) bool { return ops[i].ret < ops[j].ret })
	st := c12state{}
	for _, op := range ops {
		ok, n, why := c.step(st, op)
		if !ok {
			return why
		}
		st = n
	}
	return "order"
}

func must(err error) {
	if err != nil {
		panic(err)
	}
}

func keysOf(m map[string]bool) []string {
	var out []string
	for k, v := range m {
		if v {
			out = append(out, k)
		}
	}
	sort.Strings(out)
	return out
}
