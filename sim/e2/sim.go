// Package e2 is engine E2 "concsim": the lock-using components
// (dynamiccache.Cache + cacheSource, packageimport.RequestManager) run as the
// real code of the current tree with their mutexes and go statements rewritten
// to simsync (build.sh), so that a seeded scheduler decides which goroutine
// runs at every lock acquisition, lock release, goroutine start and scripted
// environment call. One choice sequence = one exactly repeatable interleaving.
package e2

import (
	"fmt"
	"hash/fnv"
	"os"
	"sort"
	"strings"
	"testing"
	"testing/synctest"

	"package-operator.run/internal/packages/verifsim/choice"
	"package-operator.run/internal/packages/verifsim/cs"
	"package-operator.run/internal/zzverif/simsync"
)

// Sim is one simulated execution of E2.
type Sim struct {
	S         *simsync.Sched
	Sch, Scn  *choice.Seq
	Prop      string
	Step      int
	clock     int
	trace     bool
	Trace     []string
	Desc      []string
	Viol      []cs.Violation
	Faults    map[string]int
	Probes    map[string]int
	FaultFree bool
	Budget    int // remaining faults
	FaultOn   map[string]bool
	il        []string
	states    map[uint64]struct{}
	stop      bool
	capped    bool
	exercised bool
	inconcl   bool
	log       []string // deterministic event log (hashed)
	StateFn   func() string
	panics    []string
}

func (s *Sim) Tracef(f string, a ...any) {
	line := fmt.Sprintf("[%4d] ", s.Step) + fmt.Sprintf(f, a...)
	s.log = append(s.log, line)
	if s.trace {
		s.Trace = append(s.Trace, line)
	}
}

func (s *Sim) tick() int { s.clock++; return s.clock }

func (s *Sim) Report(rule, sig, msg string) {
	v := cs.Violation{Property: s.Prop, Rule: rule, Sig: sig, Seq: uint64(s.Step), Msg: msg}
	for _, o := range s.Viol {
		if o.Key() == v.Key() {
			return
		}
	}
	s.Viol = append(s.Viol, v)
	s.Tracef("VIOLATION %s/%s: %s", rule, sig, msg)
	if !cs.KnownSigs[v.Key()] {
		s.stop = true
	}
}

// Fault draws whether a fault of the given kind fires now (from the schedule stream).
func (s *Sim) Fault(kind string, num, den int) bool {
	if s.FaultFree || !s.FaultOn[kind] || s.Budget <= 0 {
		return false
	}
	if s.Sch.Chance(num, den, "fault-"+kind) {
		s.Budget--
		s.Faults[kind]++
		s.Tracef("FAULT %s", kind)
		return true
	}
	return false
}

// drawFaultMix enables a random subset of fault kinds (swarm testing).
func (s *Sim) drawFaultMix(kinds ...string) {
	for _, k := range kinds {
		if s.Scn.Chance(1, 2, "fault-kind-"+k) && !s.FaultFree {
			s.FaultOn[k] = true
		}
	}
	s.Budget = s.Scn.Intn(5, "fault-budget")
	if s.FaultFree {
		s.Budget = 0
	}
}

// Go starts a controlled caller task that reports panics as violations.
func (s *Sim) Go(name string, fn func()) {
	simsync.Go(name, func() {
		defer func() {
			if r := recover(); r != nil {
				s.panics = append(s.panics, fmt.Sprintf("task %s: %v", name, r))
			}
		}()
		fn()
	})
}

// Run drives the tasks until nothing is runnable (or the step cap is hit).
func (s *Sim) Run(maxSteps int) {
	for !s.stop {
		synctest.Wait()
		if len(s.panics) > 0 {
			s.Report("panic", "task", strings.Join(s.panics, "; "))
			return
		}
		if len(s.S.Unguarded) > 0 {
			u := s.S.Unguarded[0]
			s.Report("unguarded-access", u, "shared state accessed without holding a suitable lock: "+strings.Join(s.S.Unguarded, "; "))
			return
		}
		if s.StateFn != nil {
			h := fnv.New64a()
			h.Write([]byte(s.StateFn()))
			s.states[h.Sum64()] = struct{}{}
		}
		run := s.S.Runnable()
		if len(run) == 0 {
			return
		}
		if s.Step >= maxSteps {
			s.capped = true
			return
		}
		i := s.Sch.Intn(len(run), "pick")
		t := run[i]
		s.Step++
		s.il = append(s.il, t.Name+"@"+t.At)
		if s.trace {
			s.Tracef("run task %d (%s) from %s   [%d runnable]", t.ID, t.Name, t.At, len(run))
		} else {
			s.log = append(s.log, fmt.Sprintf("%d:%d@%s", s.Step, t.ID, t.At))
		}
		s.S.Resume(t)
	}
	synctest.Wait()
}

// stuck lists tasks that did not finish.
func (s *Sim) stuck() []string {
	var out []string
	for _, t := range s.S.Tasks {
		if t.State != simsync.Done {
			out = append(out, fmt.Sprintf("%s@%s", t.Name, t.At))
		}
	}
	return out
}

type plan func(s *Sim, spec cs.RunSpec)

var plans = map[string]plan{}

// Properties lists the properties this engine decides.
func Properties() []string {
	var out []string
	for p := range plans {
		out = append(out, p)
	}
	sort.Strings(out)
	return out
}

// RunOne executes spec inside a synctest bubble.
func RunOne(t *testing.T, spec cs.RunSpec) (res cs.RunResult) {
	res.Spec = spec
	pl := plans[spec.Property]
	if pl == nil {
		res.Machinery = "no E2 plan for property " + spec.Property
		return res
	}
	var s *Sim
	func() {
		defer func() {
			if r := recover(); r != nil {
				msg := fmt.Sprint(r)
				// leftover blocked tasks of a run that ended in a violation make the bubble
				// panic at its end; that is expected and not a machinery problem
				if s != nil && len(s.Viol) > 0 && strings.Contains(msg, "deadlock") {
					return
				}
				res.Machinery = "panic in bubble: " + msg
			}
		}()
		synctest.Test(t, func(t *testing.T) {
			var sch, scn *choice.Seq
			if spec.Replay {
				sch, scn = choice.NewReplay(spec.Sch), choice.NewReplay(spec.Scn)
			} else {
				base := fmt.Sprintf("%s/%d", spec.Property, spec.Index)
				sch, scn = choice.NewGen(spec.Seed, base+"/sch"), choice.NewGen(spec.Seed, base+"/scn")
			}
			s = &Sim{S: simsync.Reset(), Sch: sch, Scn: scn, Prop: spec.Property, trace: spec.Trace, FaultFree: spec.FaultFree,
				Faults: map[string]int{}, Probes: map[string]int{}, FaultOn: map[string]bool{}, states: map[uint64]struct{}{}}
			s.S.Permute = func(n int) []int {
				idx := make([]int, n)
				for i := range idx {
					idx[i] = i
				}
				out := make([]int, 0, n)
				for len(idx) > 0 {
					j := s.Sch.Intn(len(idx), "map-order")
					out = append(out, idx[j])
					idx = append(idx[:j], idx[j+1:]...)
				}
				return out
			}
			defer simsync.Stop()
			func() {
				defer func() {
					if r := recover(); r != nil {
						if os.Getenv("VERIF_DEBUG") != "" {
							panic(r)
						}
						res.Machinery = fmt.Sprintf("harness panic: %v", r)
					}
				}()
				pl(s, spec)
			}()
			// release leftover parked tasks is impossible; the bubble panics if any remain (recovered above)
		})
	}()
	if s == nil {
		return res
	}
	res.Viol = s.Viol
	res.Sch, res.Scn = s.Sch.Rec, s.Scn.Rec
	h := fnv.New64a()
	for _, l := range s.log {
		h.Write([]byte(l))
		h.Write([]byte{'\n'})
	}
	res.Hash = h.Sum64()
	h2 := fnv.New64a()
	h2.Write([]byte(strings.Join(s.il, "|")))
	res.ILSig = h2.Sum64()
	res.Exercised = s.exercised
	res.Steps = s.Step
	res.Requests = s.clock
	res.Passes = len(s.S.Tasks)
	res.Faults, res.Probes = s.Faults, s.Probes
	for k, v := range s.S.Yields {
		res.Probes["yield/"+k] += v
	}
	for st := range s.states {
		res.States = append(res.States, st)
	}
	sort.Slice(res.States, func(i, j int) bool { return res.States[i] < res.States[j] })
	res.Capped, res.Inconcl = s.capped, s.inconcl
	res.Desc = s.Desc
	res.Trace = s.Trace
	if len(res.Viol) > 0 && !spec.Trace {
		res.Trace = nil
	}
	return res
}
