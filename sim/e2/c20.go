package e2

import (
	"bytes"
	"context"
	"errors"
	"fmt"
	"sort"
	"strings"

	"k8s.io/apimachinery/pkg/types"

	"package-operator.run/internal/imageprefix"
	"package-operator.run/internal/packages"
	"package-operator.run/internal/packages/verifsim/cs"
	"package-operator.run/internal/zzverif/simsync"
)

func init() { plans["C20"] = planC20 }

type c20pull struct {
	id        int
	ref       string
	startStep int
	endStep   int // 0 while in the registry
	doneStep  int // step at which the pulling goroutine finished (broadcast certainly over)
	task      *simsync.Task
	err       error
	pristine  map[string][]byte
}

type c20call struct {
	caller, idx int
	image, ref  string
	invokeStep  int
	returnStep  int
	returned    bool
	files       map[string][]byte
	err         error
	gen         int // pull that produced the response (-1 unknown)
}

type c20 struct {
	sim      *Sim
	rm       *packages.RequestManager
	pulls    []*c20pull
	inflight map[string]int
	calls    []*c20call
}

func planC20(s *Sim, spec cs.RunSpec) {
	c := &c20{sim: s, inflight: map[string]int{}}
	s.drawFaultMix("pull-error")

	images := []string{"quay.io/pkg/one:v1", "quay.io/pkg/one:v2", "quay.io/pkg/two:v1", "mirror.io/pkg/one:v1"}
	ni := 1 + s.Scn.Intn(4, "images")
	images = images[:ni]
	var prefix []imageprefix.Override
	if s.Scn.Chance(1, 3, "prefix-override") {
		// two spellings of the same image then collapse into one pull key
		prefix = []imageprefix.Override{{From: "quay.io/", To: "mirror.io/"}}
	}
	final := func(img string) string { return imageprefix.Replace(img, prefix) }
	c.rm = packages.NewRequestManager(nil, prefix, nil, types.NamespacedName{})
	c.rm.SimSetPull(c.pull)

	nt := 2 + s.Scn.Intn(4, "callers")
	var progs [][]string
	total := 0
	for t := 0; t < nt; t++ {
		n := 1 + s.Scn.Intn(3, "calls")
		var prog []string
		for j := 0; j < n; j++ {
			prog = append(prog, images[s.Scn.Intn(len(images), "image")])
			total++
		}
		progs = append(progs, prog)
	}
	s.Desc = append(s.Desc, fmt.Sprintf("C20 images=%d prefix-override=%v callers=%d calls=%d faults=%v budget=%d", ni, len(prefix) > 0, nt, total, keysOf(s.FaultOn), s.Budget))
	for t, p := range progs {
		s.Desc = append(s.Desc, fmt.Sprintf("  caller %d: %s", t, strings.Join(p, "; ")))
	}
	s.StateFn = c.stateString

	ctx := context.Background()
	for t, prog := range progs {
		t, prog := t, prog
		// every call gets its own preallocated record: a caller woken by the
		// broadcast runs concurrently with the broadcaster until its next yield
		// and must not touch shared harness state
		var recs []*c20call
		for j, img := range prog {
			r := &c20call{caller: t, idx: j, image: img, ref: final(img), gen: -1}
			recs = append(recs, r)
			c.calls = append(c.calls, r)
		}
		s.Go(fmt.Sprintf("caller%d", t), func() {
			for _, r := range recs {
				r.invokeStep = s.Step
				raw, err := c.rm.Pull(ctx, r.image)
				r.returnStep = s.Step
				r.err = err
				if raw != nil {
					r.files = raw.Files
				}
				r.returned = true
				simsync.Yield("pull-returned")
				// from here on the caller is scheduled alone again
				c.received(r)
				if len(r.files) > 0 {
					// use the private copy: scribble over every byte and add a file
					for k, v := range r.files {
						for i := range v {
							v[i] = byte('A' + r.caller)
						}
						r.files[k] = v
					}
					r.files[fmt.Sprintf("scratch-%d-%d", r.caller, r.idx)] = []byte("mine")
				}
				simsync.Yield("between-calls")
			}
		})
	}
	s.Run(3000)
	if s.stop {
		return
	}
	if s.capped {
		s.inconcl = true
		return
	}
	c.noteDone()
	if st := s.stuck(); len(st) > 0 {
		var waiting []string
		for _, r := range c.calls {
			if r.invokeStep > 0 && !r.returned {
				waiting = append(waiting, fmt.Sprintf("caller %d call %d for %s (invoked at step %d)", r.caller, r.idx, r.ref, r.invokeStep))
			}
		}
		s.Report("stuck-caller", sigOfStuck(st), fmt.Sprintf("no task can run any more but these did not finish: %v; waiting callers: %v; receivers registered per image: %v", st, waiting, c.rm.SimInFlightUnlocked()))
		return
	}
	c.finalChecks()
}

func sigOfStuck(st []string) string {
	m := map[string]bool{}
	for _, s := range st {
		if i := strings.Index(s, "@"); i >= 0 {
			s = strings.TrimRight(s[:i], "0123456789") + s[i:]
		}
		m[s] = true
	}
	return strings.Join(sortedSet(m), ",")
}

// pull is the scripted registry: it runs in the goroutine the RequestManager starts.
func (c *c20) pull(_ context.Context, ref string) (*packages.RawPackage, error) {
	s := c.sim
	p := &c20pull{id: len(c.pulls) + 1, ref: ref, startStep: s.Step, task: simsync.CurrentTask()}
	c.pulls = append(c.pulls, p)
	s.exercised = true
	if c.inflight[ref] > 0 {
		s.Report("two-in-flight", "pull-start", fmt.Sprintf("pull %d of %s started while another pull of the same image is still in the registry", p.id, ref))
	}
	c.inflight[ref]++
	s.Tracef("pull %d of %s started", p.id, ref)
	simsync.Yield("registry")
	c.inflight[ref]--
	p.endStep = s.Step
	if s.Fault("pull-error", 1, 3) {
		p.err = fmt.Errorf("injected: pull %d of %s failed", p.id, ref)
		s.Tracef("pull %d failed", p.id)
		return nil, p.err
	}
	p.pristine = map[string][]byte{
		"manifest.yaml": []byte(fmt.Sprintf("ref=%s gen=%d", ref, p.id)),
		"data.bin":      bytes.Repeat([]byte{byte(p.id)}, 8),
	}
	files := map[string][]byte{}
	for k, v := range p.pristine {
		files[k] = append([]byte{}, v...)
	}
	s.Tracef("pull %d done", p.id)
	return &packages.RawPackage{Files: files}, nil
}

// noteDone stamps pulls whose goroutine has finished.
func (c *c20) noteDone() {
	for _, p := range c.pulls {
		if p.doneStep == 0 && p.task != nil && p.task.State == simsync.Done {
			p.doneStep = c.sim.Step
		}
	}
}

func (c *c20) stateString() string {
	c.noteDone()
	var parts []string
	for k, v := range c.rm.SimInFlightUnlocked() {
		parts = append(parts, fmt.Sprintf("%s:%d", k, v))
	}
	for k, v := range c.inflight {
		parts = append(parts, fmt.Sprintf("reg:%s:%d", k, v))
	}
	sort.Strings(parts)
	var tasks []string
	for _, t := range c.sim.S.Tasks {
		tasks = append(tasks, t.At)
	}
	return strings.Join(parts, ";") + "|" + strings.Join(tasks, ",")
}

// received judges one response right after the caller got it (content still untouched by this caller).
func (c *c20) received(r *c20call) {
	s := c.sim
	c.noteDone()
	switch {
	case r.err != nil:
		for _, p := range c.pulls {
			if p.err != nil && errors.Is(r.err, p.err) {
				r.gen = p.id
			}
		}
		if r.files != nil {
			s.Report("response-shape", "error-with-package", fmt.Sprintf("caller %d call %d got both an error and a package", r.caller, r.idx))
		}
	case r.files == nil:
		s.Report("response-shape", "neither", fmt.Sprintf("caller %d call %d for %s got neither a package nor an error", r.caller, r.idx, r.ref))
		return
	default:
		var ref string
		var gen int
		if _, err := fmt.Sscanf(string(r.files["manifest.yaml"]), "ref=%s gen=%d", &ref, &gen); err != nil {
			// not a pristine manifest: somebody else's scribbling is visible in this caller's copy
			s.Report("aliasing", "on-receipt", fmt.Sprintf("caller %d call %d for %s received files already modified by another caller: manifest.yaml=%q", r.caller, r.idx, r.ref, r.files["manifest.yaml"]))
			return
		}
		r.gen = gen
		if ref != r.ref {
			s.Report("wrong-image", "content", fmt.Sprintf("caller %d call %d asked for %s but received the package of %s", r.caller, r.idx, r.ref, ref))
			return
		}
		p := c.pulls[gen-1]
		for k, v := range p.pristine {
			if !bytes.Equal(r.files[k], v) {
				s.Report("aliasing", "on-receipt", fmt.Sprintf("caller %d call %d received file %s = %q, the pull produced %q", r.caller, r.idx, k, r.files[k], v))
				return
			}
		}
		if len(r.files) != len(p.pristine) {
			s.Report("aliasing", "on-receipt", fmt.Sprintf("caller %d call %d received %d files, the pull produced %d (another caller's additions are visible)", r.caller, r.idx, len(r.files), len(p.pristine)))
			return
		}
	}
	if r.gen <= 0 {
		s.Report("response-shape", "unattributable", fmt.Sprintf("caller %d call %d got a response no pull produced: %v", r.caller, r.idx, r.err))
		return
	}
	p := c.pulls[r.gen-1]
	if p.ref != r.ref {
		s.Report("wrong-image", "pull", fmt.Sprintf("caller %d call %d asked for %s but received the result of pull %d of %s", r.caller, r.idx, r.ref, p.id, p.ref))
		return
	}
	// freshness: a request that arrives after a response was broadcast must be served by a fresh pull
	if p.doneStep != 0 && p.doneStep < r.invokeStep {
		s.Report("stale-response", "after-broadcast", fmt.Sprintf("caller %d call %d (invoked at step %d) was answered with pull %d whose goroutine had finished broadcasting at step %d", r.caller, r.idx, r.invokeStep, p.id, p.doneStep))
		return
	}
	for _, o := range c.calls {
		if o != r && o.returned && o.gen == r.gen && o.returnStep < r.invokeStep {
			s.Report("stale-response", "after-delivery", fmt.Sprintf("caller %d call %d (invoked at step %d) was answered with pull %d which caller %d had already received at step %d", r.caller, r.idx, r.invokeStep, p.id, o.caller, o.returnStep))
			return
		}
	}
	if p.startStep > r.returnStep {
		s.Report("stale-response", "from-the-future", "response attributed to a pull that started later")
	}
	s.Tracef("caller %d call %d for %s <- pull %d err=%v", r.caller, r.idx, r.ref, r.gen, r.err)
}

func (c *c20) finalChecks() {
	s := c.sim
	for _, r := range c.calls {
		if !r.returned {
			s.Report("stuck-caller", "never-returned", fmt.Sprintf("caller %d call %d for %s never returned", r.caller, r.idx, r.ref))
			return
		}
	}
	if m := c.rm.SimInFlightUnlocked(); len(m) > 0 {
		s.Report("entry-leaked", "at-end", fmt.Sprintf("all pulls and callers finished but receivers are still registered: %v (a later request would wait forever)", m))
		return
	}
	// private copies: every received package holds the pull's files overwritten by this caller only
	for _, r := range c.calls {
		if r.files == nil || r.gen <= 0 {
			continue
		}
		p := c.pulls[r.gen-1]
		mine := fmt.Sprintf("scratch-%d-%d", r.caller, r.idx)
		for k, v := range r.files {
			if k == mine {
				continue
			}
			want, ok := p.pristine[k]
			if !ok {
				s.Report("aliasing", "foreign-file", fmt.Sprintf("caller %d call %d finds file %s in its package that another caller added", r.caller, r.idx, k))
				return
			}
			if !bytes.Equal(v, bytes.Repeat([]byte{byte('A' + r.caller)}, len(want))) {
				s.Report("aliasing", "foreign-bytes", fmt.Sprintf("caller %d call %d wrote its mark over file %s but reads back %q", r.caller, r.idx, k, v))
				return
			}
		}
	}
	// dedup accounting (probe, not a rule): callers served per pull
	served := map[int]int{}
	for _, r := range c.calls {
		served[r.gen]++
	}
	for _, n := range served {
		if n > 1 {
			s.Probes["pull-shared-by-several-callers"]++
		}
	}
	s.Probes["pulls"] += len(c.pulls)
	s.Probes["calls"] += len(c.calls)
}
